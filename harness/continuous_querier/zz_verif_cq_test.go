package continuous_querier

// X01 (extra check: lease protocol + its user) - verification harness for the continuous-query service,
// injected with `go test -overlay`, never part of the repository.
//
//   TestVerifCQReplay   every behaviour printed by specs/lease/CQSchedGen.tla replayed on real Service objects
//                       (one per model node; started with Open, driven through RunCh / Service.Run exactly as
//                       the repository's tests do).  The MetaClient is a fake whose AcquireLease answers what the
//                       model's lease table says for that step; the statement executor records the time range
//                       of every SELECT the service issues.  After every step: number of AcquireLease calls,
//                       executed ranges and the projection of Service.lastRuns are compared with the model, and
//                       the X03 statements are evaluated directly on what the real service executed.
//   TestVerifCQTimer    the timer path of backgroundLoop with the real clock: nothing is executed while the
//                       lease is refused, and what is executed after it is granted never reaches into the
//                       future of the real clock.

import (
	"errors"
	"fmt"
	"math/rand"
	"os"
	"sort"
	"strings"
	"sync"
	"testing"
	"time"

	"github.com/influxdata/influxdb/pkg/verifx/vtrace"
	"github.com/influxdata/influxdb/query"
	"github.com/influxdata/influxdb/services/meta"
	"github.com/influxdata/influxql"
)

const vqWatchdog = 60 * time.Second

type vqPar struct {
	I int `json:"i"`
	E int `json:"e"`
	F int `json:"f"`
	O int `json:"o"`
}

type vqSt struct {
	Now   int `json:"now"`
	Lease struct {
		Owner int `json:"owner"`
		Exp   int `json:"exp"`
	} `json:"lease"`
	HasRun  []bool `json:"hasRun"`
	LastRun []int  `json:"lastRun"`
}

type vqStep struct {
	A       string `json:"a"`
	N       int    `json:"n"`
	By      int    `json:"by"`
	Qok     bool   `json:"qok"`
	Granted bool   `json:"granted"`
	Ran     bool   `json:"ran"`
	Start   int    `json:"start"`
	End     int    `json:"end"`
	First   bool   `json:"first"`
	Manual  bool   `json:"manual"`
	Par     *vqPar `json:"par"`
	Now     int    `json:"now"`
	D       int    `json:"d"`
	St      *vqSt  `json:"st"`
}

type vqInput struct {
	Behaviours [][]vqStep `json:"behaviours"`
	Indices    []int      `json:"indices"` // replay: the index (jitter/unit seed) each behaviour had in its original run
	Seed       int64      `json:"seed"`    // replay: the seed of the original run
	MaxSigs    int        `json:"max_sigs"`
}

// ---------------------------------------------------------------------------------------------
// fakes

type vqToken struct {
	grant   bool
	barrier bool
	ack     chan struct{} // barrier: closed when the service asked for the lease on behalf of the barrier request
}

type vqExec struct {
	node     int
	db       string
	min, max time.Time // [min, max)
}

type vqMeta struct {
	node   int
	dbs    []meta.DatabaseInfo
	tokens chan vqToken
	mu     sync.Mutex
	calls  []string // lease names asked for (barriers excluded)
	infra  string
}

func (m *vqMeta) AcquireLease(name string) (*meta.Lease, error) {
	select {
	case tk := <-m.tokens:
		if tk.barrier {
			close(tk.ack)
			return nil, errors.New("verif barrier")
		}
		m.mu.Lock()
		m.calls = append(m.calls, name)
		m.mu.Unlock()
		if tk.grant {
			return &meta.Lease{Name: name, Owner: uint64(m.node), Expiration: time.Now().Add(time.Minute)}, nil
		}
		return &meta.Lease{Name: name, Owner: uint64(m.node + 100)}, errors.New("another node owns the lease")
	case <-time.After(vqWatchdog):
		m.mu.Lock()
		m.infra = "AcquireLease called without a pending request of the driver"
		m.mu.Unlock()
		return nil, errors.New("verif: unexpected AcquireLease")
	}
}
func (m *vqMeta) Databases() []meta.DatabaseInfo { return m.dbs }
func (m *vqMeta) Database(name string) *meta.DatabaseInfo {
	for i := range m.dbs {
		if m.dbs[i].Name == name {
			return &m.dbs[i]
		}
	}
	return nil
}

type vqRecorder struct {
	mu    sync.Mutex
	node  int
	qok   bool
	execs []vqExec
	bad   string
}

func (r *vqRecorder) ExecuteStatement(ctx *query.ExecutionContext, stmt influxql.Statement) error {
	s, ok := stmt.(*influxql.SelectStatement)
	if !ok {
		r.mu.Lock()
		r.bad = fmt.Sprintf("statement is not a SELECT: %T", stmt)
		r.mu.Unlock()
		return errors.New("verif: not a select")
	}
	valuer := &influxql.NowValuer{Location: s.Location}
	_, tr, err := influxql.ConditionExpr(s.Condition, valuer)
	r.mu.Lock()
	if err != nil {
		r.bad = "cannot evaluate time range of " + s.String() + ": " + err.Error()
	}
	r.execs = append(r.execs, vqExec{node: r.node, db: ctx.Database, min: tr.Min, max: tr.Max.Add(time.Nanosecond)})
	qok := r.qok
	r.mu.Unlock()
	if !qok {
		return errors.New("verif: scripted query failure")
	}
	return ctx.Send(&query.Result{})
}

// ---------------------------------------------------------------------------------------------
// one model node = one real Service

type vqNode struct {
	id  int
	mc  *vqMeta
	rec *vqRecorder
	svc *Service
}

func vqNewService(n *vqNode) {
	s := NewService(NewConfig())
	s.MetaClient = n.mc
	s.QueryExecutor = query.NewExecutor()
	s.QueryExecutor.StatementExecutor = n.rec
	s.RunInterval = 24 * time.Hour // the timer never fires: the driver supplies every "now"
	n.svc = s
	s.Open()
}

type vqCase struct {
	beh    []vqStep
	idx    int
	seed   int64
	unit   time.Duration
	base   time.Time
	jitter []int64 // per model instant offset (ns) for odd instants, fixed per behaviour so that equal instants map equally
	par    vqPar
	nodes  []*vqNode
	// everything the real services executed, per node life / for the cluster (db "db" only)
	lifeExec map[int]map[int64]int
	allExec  map[int64]int
	failed   map[int]bool
	stats    map[string]int
}

func (c *vqCase) dur(h int) time.Duration { return time.Duration(h/2) * c.unit }

// real instant of model instant t (half units): even = exact multiple of the unit, odd = strictly inside
func (c *vqCase) real(t int) time.Time {
	r := c.base.Add(time.Duration(t/2) * c.unit)
	if t%2 != 0 {
		r = r.Add(time.Duration(c.jitter[t%len(c.jitter)]))
	}
	return r
}

func vqFmtDur(d time.Duration) string { return fmt.Sprintf("%ds", int64(d/time.Second)) }

func (c *vqCase) cqText(name, db string) string {
	p := c.par
	res := ""
	if p.E != 0 || p.F != 0 {
		res = " RESAMPLE"
		if p.E != 0 {
			res += " EVERY " + vqFmtDur(c.dur(p.E))
		}
		if p.F != 0 {
			res += " FOR " + vqFmtDur(c.dur(p.F))
		}
	}
	gb := vqFmtDur(c.dur(p.I))
	if p.O != 0 {
		gb += ", " + vqFmtDur(c.dur(p.O))
	}
	return fmt.Sprintf(`CREATE CONTINUOUS QUERY %s ON %s%s BEGIN SELECT mean(value) INTO cpu_mean FROM cpu GROUP BY time(%s) END`, name, db, res, gb)
}

type vqMismatch struct {
	sig, detail string
	step        int
}

func (c *vqCase) replayObj() map[string]interface{} {
	return map[string]interface{}{"test": "TestVerifCQReplay", "behaviour": c.beh, "seed": c.seed, "index": c.idx}
}

// send one request to node n's service and wait until the service has completely processed it
func (c *vqCase) request(n *vqNode, tk vqToken, manual bool, now time.Time) error {
	n.mc.tokens <- tk
	sent := make(chan struct{})
	go func() {
		if manual {
			n.svc.Run("", "", now)
		} else {
			n.svc.RunCh <- &RunRequest{Now: now}
		}
		close(sent)
	}()
	select {
	case <-sent:
	case <-time.After(vqWatchdog):
		return errors.New("watchdog: the service did not take the run request")
	}
	// barrier: the loop takes the next request only after it finished the previous one; the barrier request
	// matches no CQ and its lease is refused; once it asked for that lease the loop is idle again
	ack := make(chan struct{})
	n.mc.tokens <- vqToken{barrier: true, ack: ack}
	select {
	case n.svc.RunCh <- &RunRequest{Now: now, CQs: []string{}}:
	case <-time.After(vqWatchdog):
		return errors.New("watchdog: the service did not finish the run request")
	}
	select {
	case <-ack:
	case <-time.After(vqWatchdog):
		return errors.New("watchdog: the barrier request was not processed")
	}
	return nil
}

// every request() returns only when the loop is idle again: nothing to wait for
func (c *vqCase) drain(n *vqNode) error { return nil }

func (c *vqCase) lastRunOf(n *vqNode, db string) (time.Time, bool) {
	n.svc.mu.RLock()
	defer n.svc.mu.RUnlock()
	t, ok := n.svc.lastRuns[db+idDelimiter+"cq"]
	return t, ok
}

func (c *vqCase) run() (mm *vqMismatch, infra error) {
	init := c.beh[0]
	if init.A != "init" || init.Par == nil {
		return nil, fmt.Errorf("behaviour %d does not start with init", c.idx)
	}
	c.par = *init.Par
	rnd := rand.New(rand.NewSource(c.seed*1000003 + int64(c.idx)))
	units := []time.Duration{time.Second, time.Minute, time.Hour, 10 * time.Second}
	c.unit = units[rnd.Intn(len(units))]
	c.base = time.Unix(946684800, 0).UTC() // 2000-01-01T00:00:00Z: a multiple of every duration used (<= 8 units of <= 1h)
	c.jitter = make([]int64, 7)
	for i := range c.jitter {
		switch rnd.Intn(4) {
		case 0:
			c.jitter[i] = 1
		case 1:
			c.jitter[i] = int64(c.unit) - 1
		default:
			c.jitter[i] = 1 + rnd.Int63n(int64(c.unit)-1)
		}
	}
	nn := 0
	for _, st := range c.beh {
		if st.St != nil && len(st.St.HasRun) > nn {
			nn = len(st.St.HasRun)
		}
	}
	dbs := []meta.DatabaseInfo{
		{Name: "db", DefaultRetentionPolicy: "rp", ContinuousQueries: []meta.ContinuousQueryInfo{{Name: "cq", Query: c.cqText("cq", "db")}}},
		// same CQ name in another database: its own lastRuns entry, the same schedule
		{Name: "dbz", DefaultRetentionPolicy: "rp", ContinuousQueries: []meta.ContinuousQueryInfo{{Name: "cq", Query: c.cqText("cq", "dbz")}}},
	}
	for i := 1; i <= nn; i++ {
		n := &vqNode{id: i, mc: &vqMeta{node: i, dbs: dbs, tokens: make(chan vqToken, 4)}, rec: &vqRecorder{node: i}}
		vqNewService(n)
		c.nodes = append(c.nodes, n)
	}
	defer func() {
		for _, n := range c.nodes {
			if n.svc != nil {
				c.drain(n)
				n.svc.Close()
			}
		}
	}()
	c.lifeExec = map[int]map[int64]int{}
	c.allExec = map[int64]int{}
	c.failed = map[int]bool{}
	for i := 1; i <= nn; i++ {
		c.lifeExec[i] = map[int64]int{}
	}
	I := c.dur(c.par.I)
	ee := c.par.E
	if ee == 0 {
		ee = c.par.I
	}
	emin := c.dur(ee)
	if emin > I {
		emin = I
	}
	noResample := c.par.E == 0 && c.par.F == 0

	now := init.Now
	pendingManual := false
	for si := 1; si < len(c.beh); si++ {
		st := c.beh[si]
		switch st.A {
		case "tick":
			now += st.By
		case "restart":
			n := c.nodes[st.N-1]
			if err := c.drain(n); err != nil {
				return nil, err
			}
			n.svc.Close()
			n.rec = &vqRecorder{node: n.id}
			vqNewService(n)
			c.lifeExec[n.id] = map[int64]int{}
			c.failed[n.id] = false
			c.stats["restarts"]++
		case "manual":
			pendingManual = true
			c.lifeExec[st.N] = map[int64]int{}
			c.failed[st.N] = false
			c.stats["manual"]++
		case "run":
			n := c.nodes[st.N-1]
			if err := c.drain(n); err != nil {
				return nil, err
			}
			n.rec.mu.Lock()
			n.rec.execs, n.rec.qok = nil, st.Qok
			n.rec.mu.Unlock()
			n.mc.mu.Lock()
			n.mc.calls = nil
			n.mc.mu.Unlock()
			rnow := c.real(now)
			if err := c.request(n, vqToken{grant: st.Granted}, pendingManual, rnow); err != nil {
				return nil, fmt.Errorf("behaviour %d step %d: %v", c.idx, si, err)
			}
			pendingManual = false
			n.mc.mu.Lock()
			calls, inf := append([]string{}, n.mc.calls...), n.mc.infra
			n.mc.mu.Unlock()
			if inf != "" {
				return nil, errors.New(inf)
			}
			n.rec.mu.Lock()
			execs, bad := append([]vqExec{}, n.rec.execs...), n.rec.bad
			n.rec.mu.Unlock()
			if bad != "" {
				return &vqMismatch{"cq:statement", bad, si}, nil
			}
			c.stats["runs"]++
			// the lease is asked for exactly once per pass, under the name every node uses
			if len(calls) != 1 || calls[0] != "continuous_querier" {
				return &vqMismatch{"cq:lease-calls", fmt.Sprintf("step %d: AcquireLease calls %v, want exactly [continuous_querier]", si, calls), si}, nil
			}
			// X03_LeaseGuards
			if !st.Granted && len(execs) > 0 {
				return &vqMismatch{"x03:ran-without-lease", fmt.Sprintf("step %d node %d: lease refused, yet executed %s", si, st.N, vqShow(execs)), si}, nil
			}
			// direct X03 statements on what was executed
			for _, e := range execs {
				if e.max.Add(-I).Add(emin).After(rnow) || !e.max.After(e.min) {
					return &vqMismatch{"x03:future-interval", fmt.Sprintf("step %d now=%s: executed [%s,%s) (interval %s, every %s)", si, rnow.Format(time.RFC3339Nano), e.min.Format(time.RFC3339Nano), e.max.Format(time.RFC3339Nano), I, emin), si}, nil
				}
			}
			// model comparison: exactly the expected window, for both databases
			want := []string{}
			if st.Granted && st.Ran {
				w := fmt.Sprintf("[%s,%s)", c.real(st.Start).Format(time.RFC3339Nano), c.real(st.End).Format(time.RFC3339Nano))
				want = []string{"db" + w, "dbz" + w}
			}
			got := []string{}
			for _, e := range execs {
				got = append(got, fmt.Sprintf("%s[%s,%s)", e.db, e.min.Format(time.RFC3339Nano), e.max.Format(time.RFC3339Nano)))
			}
			sort.Strings(got)
			if strings.Join(got, " ") != strings.Join(want, " ") {
				kind := "window"
				if len(got) == 0 {
					kind = "not-run"
				} else if len(want) == 0 {
					kind = "unexpected-run"
				}
				return &vqMismatch{"cq:" + kind, fmt.Sprintf("step %d node %d now=%d(%s) par=%+v unit=%s first=%v: executed %v, model %v", si, st.N, now, rnow.Format(time.RFC3339Nano), c.par, c.unit, st.First, got, want), si}, nil
			}
			if len(execs) > 0 {
				c.stats["passes_executed"]++
				if st.End-st.Start > 2*c.par.I {
					c.stats["catch_up_passes"]++
				}
				if !st.Qok {
					c.failed[st.N] = true
					c.stats["failed_queries"]++
				}
			} else if !st.Granted {
				c.stats["refused"]++
			}
			// bookkeeping for at-most-once / no-gap on the real executions (db "db")
			if st.Qok {
				for _, e := range execs {
					if e.db != "db" {
						continue
					}
					for b := e.min; b.Before(e.max); b = b.Add(I) {
						k := b.UnixNano()
						c.lifeExec[st.N][k]++
						c.allExec[k]++
						if noResample && c.lifeExec[st.N][k] > 1 {
							return &vqMismatch{"x03:twice", fmt.Sprintf("step %d node %d: bucket %s executed twice in one life of the service (no RESAMPLE clause)", si, st.N, b.Format(time.RFC3339Nano)), si}, nil
						}
					}
				}
				if !c.failed[st.N] {
					if gap := vqGap(c.lifeExec[st.N], I); gap != "" {
						sig := "x03:gap"
						if !vqGapFree(c.par) {
							sig = "x03:gap:every-vs-interval" // these parameters skip buckets even when every pass is on time
						}
						return &vqMismatch{sig, fmt.Sprintf("step %d node %d, %s: executed buckets are not contiguous: %s", si, st.N, c.cqText("cq", "db"), gap), si}, nil
					}
				}
			}
		default:
			return nil, fmt.Errorf("unknown step %q", st.A)
		}
		// projection: lastRuns of every node
		if st.St != nil && st.A != "manual" {
			for _, n := range c.nodes {
				if err := c.drain(n); err != nil {
					return nil, err
				}
				for _, db := range []string{"db", "dbz"} {
					lr, has := c.lastRunOf(n, db)
					wantHas := st.St.HasRun[n.id-1]
					if has != wantHas || (has && !lr.Equal(c.real(st.St.LastRun[n.id-1]))) {
						return &vqMismatch{"cq:proj:lastRuns", fmt.Sprintf("step %d (%s) node %d db %s: lastRuns has=%v %s, model has=%v %s", si, st.A, n.id, db, has, lr.UTC().Format(time.RFC3339Nano), wantHas, c.real(st.St.LastRun[n.id-1]).Format(time.RFC3339Nano)), si}, nil
					}
				}
			}
		}
	}
	// what the hand-over of the lease means for the cluster (leads of CQSched.tla; counted, never a verdict)
	for _, k := range c.allExec {
		if k > 1 && noResample {
			c.stats["cluster_buckets_executed_more_than_once"]++
		}
	}
	if vqGap(c.allExec, I) != "" {
		c.stats["behaviours_with_cluster_gap"]++
	}
	return nil, nil
}

// vqGapFree is CQSched.tla's GapFree: can consecutive on-time passes with these parameters leave a hole at all?
// (half units, the model's numbers).  Parameters for which they can are the recorded finding X01-cq-gap.
func vqGapFree(p vqPar) bool {
	trunc := func(x, d int) int { return x - x%d }
	ee := p.E
	if ee == 0 {
		ee = p.I
	}
	ff := p.F
	if ff == 0 {
		ff = p.I
		if p.I < ee {
			ff = ee
		}
	}
	emin := ee
	if p.I < ee {
		emin = p.I
	}
	for k := 0; k <= p.I; k++ {
		T := 2*p.I*ee + p.O + k*ee
		if trunc(T+ee+p.I-ff-p.O-1, p.I) > trunc(T+p.I-emin-p.O, p.I) {
			return false
		}
	}
	return true
}

func vqGap(m map[int64]int, I time.Duration) string {
	if len(m) == 0 {
		return ""
	}
	var ks []int64
	for k := range m {
		ks = append(ks, k)
	}
	sort.Slice(ks, func(i, j int) bool { return ks[i] < ks[j] })
	for i := 1; i < len(ks); i++ {
		if ks[i]-ks[i-1] != int64(I) {
			return fmt.Sprintf("%s then %s", time.Unix(0, ks[i-1]).UTC().Format(time.RFC3339Nano), time.Unix(0, ks[i]).UTC().Format(time.RFC3339Nano))
		}
	}
	return ""
}

func vqShow(e []vqExec) string {
	var s []string
	for _, x := range e {
		s = append(s, fmt.Sprintf("%s[%s,%s)", x.db, x.min.Format(time.RFC3339Nano), x.max.Format(time.RFC3339Nano)))
	}
	return strings.Join(s, " ")
}

func TestVerifCQReplay(t *testing.T) {
	var in vqInput
	if err := vtrace.LoadJSON(os.Getenv("VERIF_IN"), &in); err != nil {
		t.Fatalf("input: %v", err)
	}
	if in.MaxSigs == 0 {
		in.MaxSigs = 3
	}
	seed := vtrace.Seed()
	if in.Seed != 0 {
		seed = in.Seed
	}
	var mu sync.Mutex
	total := map[string]int{}
	sigs := map[string]bool{}
	steps := 0
	var infra error
	work := make(chan int)
	var wg sync.WaitGroup
	for w := 0; w < 8; w++ {
		wg.Add(1)
		go func() {
			defer wg.Done()
			for i := range work {
				c := &vqCase{beh: in.Behaviours[i], idx: i, seed: seed, stats: map[string]int{}}
				if i < len(in.Indices) {
					c.idx = in.Indices[i]
				}
				mm, err := c.run()
				mu.Lock()
				if err != nil && infra == nil {
					infra = err
				}
				if mm != nil && !sigs[mm.sig] && len(sigs) < in.MaxSigs {
					sigs[mm.sig] = true
					vtrace.Mismatch(mm.sig, mm.detail, c.replayObj())
				}
				for k, v := range c.stats {
					total[k] += v
				}
				steps += len(c.beh) - 1
				if i < 2 && mm == nil {
					vtrace.Sample(map[string]interface{}{"cq": c.cqText("cq", "db"), "unit": c.unit.String(), "steps": len(c.beh) - 1, "stats": c.stats})
				}
				mu.Unlock()
			}
		}()
	}
	for i := range in.Behaviours {
		work <- i
	}
	close(work)
	wg.Wait()
	if infra != nil {
		t.Fatalf("INFRA: %v", infra)
	}
	out := map[string]interface{}{"behaviours": len(in.Behaviours), "steps": steps, "mismatches": len(sigs)}
	for k, v := range total {
		out[k] = v
	}
	vtrace.Done("TestVerifCQReplay", out)
	if len(sigs) > 0 {
		t.Fail()
	}
}

// ---------------------------------------------------------------------------------------------
// timer path, real clock

type vqTimerMeta struct {
	dbs     []meta.DatabaseInfo
	mu      sync.Mutex
	grant   bool
	denied  int
	granted int
	names   map[string]int
	tick    chan struct{}
}

func (m *vqTimerMeta) AcquireLease(name string) (*meta.Lease, error) {
	m.mu.Lock()
	g := m.grant
	m.names[name]++
	if g {
		m.granted++
	} else {
		m.denied++
	}
	m.mu.Unlock()
	select {
	case m.tick <- struct{}{}:
	default:
	}
	if g {
		return &meta.Lease{Name: name, Owner: 1}, nil
	}
	return nil, errors.New("another node owns the lease")
}
func (m *vqTimerMeta) Databases() []meta.DatabaseInfo { return m.dbs }
func (m *vqTimerMeta) Database(name string) *meta.DatabaseInfo {
	for i := range m.dbs {
		if m.dbs[i].Name == name {
			return &m.dbs[i]
		}
	}
	return nil
}

type vqTimerExec struct {
	mu    sync.Mutex
	execs []vqExec
	at    []time.Time
	mc    *vqTimerMeta
	sig   chan struct{}
}

func (r *vqTimerExec) ExecuteStatement(ctx *query.ExecutionContext, stmt influxql.Statement) error {
	at := time.Now()
	s := stmt.(*influxql.SelectStatement)
	_, tr, _ := influxql.ConditionExpr(s.Condition, &influxql.NowValuer{Location: s.Location})
	r.mu.Lock()
	r.execs = append(r.execs, vqExec{min: tr.Min, max: tr.Max.Add(time.Nanosecond)})
	r.at = append(r.at, at)
	r.mu.Unlock()
	select {
	case r.sig <- struct{}{}:
	default:
	}
	return ctx.Send(&query.Result{})
}

func TestVerifCQTimer(t *testing.T) {
	const I = 100 * time.Millisecond
	mc := &vqTimerMeta{names: map[string]int{}, tick: make(chan struct{}, 1)}
	mc.dbs = []meta.DatabaseInfo{{Name: "db", DefaultRetentionPolicy: "rp", ContinuousQueries: []meta.ContinuousQueryInfo{{Name: "cq",
		Query: `CREATE CONTINUOUS QUERY cq ON db BEGIN SELECT mean(value) INTO cpu_mean FROM cpu GROUP BY time(100ms) END`}}}}
	rec := &vqTimerExec{mc: mc, sig: make(chan struct{}, 1)}
	s := NewService(NewConfig())
	s.MetaClient = mc
	s.QueryExecutor = query.NewExecutor()
	s.QueryExecutor.StatementExecutor = rec
	s.RunInterval = 5 * time.Millisecond
	s.Open()
	defer s.Close()
	// wait for k more lease requests of the timer and for at least `span` of real time: a refused service must stay
	// idle however long it is refused, and a service that ignored the refusal would need up to one interval
	// before its next bucket is due
	waitCalls := func(k int, span time.Duration) {
		t0 := time.Now()
		for i := 0; i < k || time.Since(t0) < span; i++ {
			select {
			case <-mc.tick:
			case <-time.After(vqWatchdog):
				t.Fatalf("INFRA: the timer of backgroundLoop did not ask for the lease within %s", vqWatchdog)
			}
		}
	}
	bad := func(sig, detail string) {
		vtrace.Mismatch(sig, detail, map[string]interface{}{"test": "TestVerifCQTimer"})
		vtrace.Done("TestVerifCQTimer", map[string]interface{}{"mismatches": 1})
		t.FailNow()
	}
	// phase 1: the lease is refused: the timer keeps asking, nothing may run
	waitCalls(8, 4*I)
	rec.mu.Lock()
	n1 := len(rec.execs)
	rec.mu.Unlock()
	if n1 != 0 {
		bad("x03:timer:ran-without-lease", fmt.Sprintf("%d statements executed while every AcquireLease was refused", n1))
	}
	// phase 2: granted: passes run; wait for three executed statements
	mc.mu.Lock()
	mc.grant = true
	mc.mu.Unlock()
	for {
		rec.mu.Lock()
		n := len(rec.execs)
		rec.mu.Unlock()
		if n >= 3 {
			break
		}
		select {
		case <-rec.sig:
		case <-time.After(vqWatchdog):
			t.Fatalf("INFRA: no continuous query executed within %s after the lease was granted", vqWatchdog)
		}
	}
	// phase 3: refused again
	mc.mu.Lock()
	mc.grant = false
	mc.mu.Unlock()
	waitCalls(3, 0) // a request that began after the switch was answered: a pass granted earlier is complete
	rec.mu.Lock()
	execs, at := append([]vqExec{}, rec.execs...), append([]time.Time{}, rec.at...)
	rec.mu.Unlock()
	waitCalls(8, 4*I)
	rec.mu.Lock()
	n3 := len(rec.execs)
	rec.mu.Unlock()
	if n3 != len(execs) {
		bad("x03:timer:ran-without-lease", fmt.Sprintf("%d statements started after the lease was refused again", n3-len(execs)))
	}
	seen := map[int64]bool{}
	for i, e := range execs {
		// the pass began before the statement was seen: its window must end at or before the instant it was seen
		if e.max.After(at[i]) {
			bad("x03:timer:future-interval", fmt.Sprintf("statement %d seen at %s covers [%s,%s)", i, at[i].UTC().Format(time.RFC3339Nano), e.min.UTC().Format(time.RFC3339Nano), e.max.UTC().Format(time.RFC3339Nano)))
		}
		if !e.max.After(e.min) || e.min.UnixNano()%int64(I) != 0 || e.max.UnixNano()%int64(I) != 0 {
			bad("x03:timer:window", fmt.Sprintf("statement %d covers [%s,%s): not a non-empty run of 100ms buckets", i, e.min.UTC().Format(time.RFC3339Nano), e.max.UTC().Format(time.RFC3339Nano)))
		}
		if i > 0 && !e.min.Equal(execs[i-1].max) {
			bad("x03:timer:gap", fmt.Sprintf("statement %d starts at %s, the previous one ended at %s", i, e.min.UTC().Format(time.RFC3339Nano), execs[i-1].max.UTC().Format(time.RFC3339Nano)))
		}
		for b := e.min; b.Before(e.max); b = b.Add(I) {
			if seen[b.UnixNano()] {
				bad("x03:timer:twice", fmt.Sprintf("bucket %s executed twice", b.UTC().Format(time.RFC3339Nano)))
			}
			seen[b.UnixNano()] = true
		}
	}
	mc.mu.Lock()
	names := fmt.Sprint(mc.names)
	denied, granted := mc.denied, mc.granted
	mc.mu.Unlock()
	if len(mc.names) != 1 || mc.names["continuous_querier"] == 0 {
		bad("cq:lease-calls", "lease names asked for: "+names)
	}
	vtrace.Done("TestVerifCQTimer", map[string]interface{}{"statements": len(execs), "buckets": len(seen), "lease_refused": denied, "lease_granted": granted})
}
