// X04c (timing clause) - the real precreator.Service with a recording MetaClient.
// What the service guarantees and what is checked on every call it makes:
//   cutoff - now == advance-period exactly, both UTC, now inside the wall-clock bracket of the call and
//   non-decreasing; an error returned by the meta client does not stop the loop; one loop only after a repeated
//   Open; Close returns only after a call in flight has returned, and no call is made afterwards; Open after Close
//   starts the loop again.  Waits are event driven (channels); timers are watchdogs or bounds for "nothing happens".
package precreator

import (
	"errors"
	"fmt"
	"os"
	"sync"
	"testing"
	"time"

	"github.com/influxdata/influxdb/pkg/verifx/vtrace"
	"github.com/influxdata/influxdb/toml"
)

type vqCall struct {
	now, cutoff time.Time
	lo, hi      time.Time
}

type vqMeta struct {
	mu       sync.Mutex
	calls    []vqCall
	inflight int
	maxIn    int
	arrived  chan int      // call numbers
	block    chan struct{} // when non-nil: every call waits for it
	failOdd  bool
	lastEnd  time.Time
}

func (m *vqMeta) PrecreateShardGroups(now, cutoff time.Time) error {
	hi := time.Now()
	m.mu.Lock()
	m.inflight++
	if m.inflight > m.maxIn {
		m.maxIn = m.inflight
	}
	n := len(m.calls)
	m.calls = append(m.calls, vqCall{now: now, cutoff: cutoff, lo: m.lastEnd, hi: hi})
	blk := m.block
	m.mu.Unlock()
	select {
	case m.arrived <- n:
	default:
	}
	if blk != nil {
		<-blk
	}
	m.mu.Lock()
	m.inflight--
	m.lastEnd = time.Now()
	m.mu.Unlock()
	if m.failOdd && n%2 == 1 {
		return errors.New("verif: meta service unavailable")
	}
	return nil
}

func (m *vqMeta) count() int { m.mu.Lock(); defer m.mu.Unlock(); return len(m.calls) }

func (m *vqMeta) waitCalls(n int, d time.Duration) bool {
	dead := time.After(d)
	for m.count() < n {
		select {
		case <-m.arrived:
		case <-dead:
			return m.count() >= n
		}
	}
	return true
}

func TestVerifPrecreatorTiming(t *testing.T) {
	if os.Getenv("VERIF_OUT") == "" {
		t.Skip("no VERIF_OUT")
	}
	infra := func(f string, a ...interface{}) {
		msg := fmt.Sprintf(f, a...)
		vtrace.Out(map[string]interface{}{"k": "infra", "detail": msg})
		t.Fatal(msg)
	}
	fail := func(sig, detail string) {
		vtrace.Mismatch(sig, detail, map[string]interface{}{"test": "TestVerifPrecreatorTiming"})
		t.Fail()
	}
	total := 0
	for _, adv := range []time.Duration{time.Nanosecond, 30 * time.Minute, 1000 * time.Hour} {
		m := &vqMeta{arrived: make(chan int, 1), failOdd: true, lastEnd: time.Now()}
		c := NewConfig()
		c.CheckInterval = toml.Duration(2 * time.Millisecond)
		c.AdvancePeriod = toml.Duration(adv)
		s := NewService(c)
		s.MetaClient = m
		if err := s.Open(); err != nil {
			infra("open: %v", err)
		}
		if err := s.Open(); err != nil {
			infra("re-open: %v", err)
		}
		// errors (every second call fails) must not stop the loop
		if !m.waitCalls(6, 60*time.Second) {
			s.Close()
			if m.count() >= 2 {
				fail("svc:stopped-after-error", fmt.Sprintf("only %d calls although the service is open", m.count()))
				return
			}
			infra("watchdog: %d calls", m.count())
		}
		// block the next call: a second loop (double Open) would call concurrently; Close must wait for the call
		blk := make(chan struct{})
		m.mu.Lock()
		m.block = blk
		base := len(m.calls)
		m.mu.Unlock()
		if !m.waitCalls(base+1, 60*time.Second) {
			infra("watchdog: no call to block")
		}
		closed := make(chan struct{})
		go func() { s.Close(); close(closed) }()
		select {
		case <-closed:
			fail("svc:close-did-not-wait", "Close returned while a PrecreateShardGroups call was in flight")
		case <-time.After(100 * time.Millisecond): // bound for "nothing happens": 50 intervals
		}
		m.mu.Lock()
		if m.maxIn > 1 {
			fail("svc:two-loops", fmt.Sprintf("%d concurrent calls after a repeated Open", m.maxIn))
		}
		m.block = nil
		m.mu.Unlock()
		close(blk)
		select {
		case <-closed:
		case <-time.After(60 * time.Second):
			infra("watchdog: Close did not return")
		}
		after := m.count()
		select {
		case <-m.arrived: // stale notification of an earlier call
		default:
		}
		select {
		case n := <-m.arrived:
			if n >= after {
				fail("svc:call-after-close", fmt.Sprintf("call %d after Close returned", n))
			}
		case <-time.After(50 * time.Millisecond):
		}
		if m.count() != after {
			fail("svc:call-after-close", fmt.Sprintf("%d calls after Close returned", m.count()-after))
		}
		// restart
		if err := s.Open(); err != nil {
			infra("open again: %v", err)
		}
		if !m.waitCalls(after+2, 60*time.Second) {
			fail("svc:no-restart", "no call after Open following Close")
		}
		s.Close()
		m.mu.Lock()
		var prev time.Time
		for i, cl := range m.calls {
			if d := cl.cutoff.Sub(cl.now); d != adv {
				fail("x04c:cutoff-not-now-plus-advance", fmt.Sprintf("call %d: cutoff-now=%s, advance-period=%s", i, d, adv))
				break
			}
			if cl.now.Location() != time.UTC || cl.cutoff.Location() != time.UTC {
				fail("x04c:not-utc", fmt.Sprintf("call %d: %s %s", i, cl.now.Location(), cl.cutoff.Location()))
				break
			}
			if cl.now.Before(cl.lo) || cl.now.After(cl.hi) {
				fail("x04c:now-not-current", fmt.Sprintf("call %d: now=%s outside [%s,%s]", i, cl.now, cl.lo, cl.hi))
				break
			}
			if cl.now.Before(prev) {
				fail("x04c:now-went-back", fmt.Sprintf("call %d", i))
				break
			}
			prev = cl.now
		}
		total += len(m.calls)
		m.mu.Unlock()
	}
	vtrace.Done("TestVerifPrecreatorTiming", map[string]interface{}{"calls_checked": total, "advance_periods": 3})
}
