// Package vtrace is the small helper library of the verification harness.  It exists only in the
// build overlay (virtual path pkg/verifx/vtrace); nothing in the repository imports it.
package vtrace

import (
	"encoding/json"
	"fmt"
	"io"
	"os"
	"path/filepath"
	"strconv"
	"sync"
	"time"

	"github.com/influxdata/influxdb/pkg/verifhook"
)

var outMu sync.Mutex

// Out appends one ndjson record to $VERIF_OUT (the orchestrator reads it back).
func Out(rec map[string]interface{}) {
	p := os.Getenv("VERIF_OUT")
	if p == "" {
		return
	}
	b, err := json.Marshal(rec)
	if err != nil {
		b, _ = json.Marshal(map[string]interface{}{"k": "error", "detail": "unmarshalable record: " + err.Error()})
	}
	outMu.Lock()
	defer outMu.Unlock()
	f, err := os.OpenFile(p, os.O_CREATE|os.O_WRONLY|os.O_APPEND, 0644)
	if err != nil {
		panic(err)
	}
	defer f.Close()
	f.Write(append(b, '\n'))
}

// Mismatch reports a real-code outcome that differs from the model / that the property forbids.
func Mismatch(sig string, detail string, replay interface{}) {
	Out(map[string]interface{}{"k": "mismatch", "sig": sig, "detail": detail, "replay": replay})
}

// Done reports normal completion of a driver with its counters (dead-driver guard).
func Done(test string, counters map[string]interface{}) {
	rec := map[string]interface{}{"k": "done", "test": test}
	for k, v := range counters {
		rec[k] = v
	}
	Out(rec)
}

// Sample records one explored case verbatim for the evidence file.
func Sample(v interface{}) { Out(map[string]interface{}{"k": "sample", "v": v}) }

// Env returns the environment variable or a default.
func Env(name, def string) string {
	if v := os.Getenv(name); v != "" {
		return v
	}
	return def
}

// Seed returns $VERIF_SEED (default 1).
func Seed() int64 {
	n, err := strconv.ParseInt(Env("VERIF_SEED", "1"), 10, 64)
	if err != nil {
		return 1
	}
	return n
}

// EnvInt returns an integer environment variable or a default.
func EnvInt(name string, def int) int {
	n, err := strconv.Atoi(os.Getenv(name))
	if err != nil {
		return def
	}
	return n
}

// Thorough reports whether the thorough tier was requested.
func Thorough() bool { return os.Getenv("VERIF_TIER") == "thorough" }

// LoadJSON reads a JSON file.
func LoadJSON(path string, v interface{}) error {
	b, err := os.ReadFile(path)
	if err != nil {
		return err
	}
	return json.Unmarshal(b, v)
}

// CopyDir copies a directory tree (regular files and directories only).
func CopyDir(src, dst string) error {
	return filepath.Walk(src, func(p string, info os.FileInfo, err error) error {
		if err != nil {
			return err
		}
		rel, _ := filepath.Rel(src, p)
		t := filepath.Join(dst, rel)
		if info.IsDir() {
			return os.MkdirAll(t, 0755)
		}
		if !info.Mode().IsRegular() {
			return nil
		}
		in, err := os.Open(p)
		if err != nil {
			return err
		}
		defer in.Close()
		out, err := os.OpenFile(t, os.O_CREATE|os.O_WRONLY|os.O_TRUNC, 0644)
		if err != nil {
			return err
		}
		if _, err := io.Copy(out, in); err != nil {
			out.Close()
			return err
		}
		if err := out.Close(); err != nil {
			return err
		}
		return os.Chtimes(t, info.ModTime(), info.ModTime())
	})
}

// Event is one hook event as recorded.
type Event struct {
	Seq  int           `json:"q"`
	Ev   string        `json:"e"`
	Args []interface{} `json:"args"`
}

// Recorder collects hook events in order.  The sequence number is taken inside the hook call,
// i.e. while the emitting code still holds whatever lock protects the state change.
type Recorder struct {
	mu     sync.Mutex
	events []Event
	// OnEvent, if set, is called (outside the recorder lock) for every event; it may block (gate).
	OnEvent func(ev string, args []interface{})
}

// Install makes r the process-wide hook handler.
func (r *Recorder) Install() {
	verifhook.Set(func(ev string, args ...interface{}) {
		r.mu.Lock()
		r.events = append(r.events, Event{Seq: len(r.events) + 1, Ev: ev, Args: args})
		cb := r.OnEvent
		r.mu.Unlock()
		if cb != nil {
			cb(ev, args)
		}
	})
}

// Uninstall removes any hook handler.
func Uninstall() { verifhook.Set(nil) }

// Events returns a copy of the recorded events and clears the buffer.
func (r *Recorder) Drain() []Event {
	r.mu.Lock()
	defer r.mu.Unlock()
	e := r.events
	r.events = nil
	return e
}

// Gate lets a driver hold a goroutine inside a hook until released.
type Gate struct {
	arrived chan struct{}
	release chan struct{}
}

// NewGate returns a gate.
func NewGate() *Gate { return &Gate{arrived: make(chan struct{}, 1), release: make(chan struct{})} }

// Block is called from the hook handler: signals arrival and waits for Release (with a watchdog).
func (g *Gate) Block(d time.Duration) error {
	select {
	case g.arrived <- struct{}{}:
	default:
	}
	select {
	case <-g.release:
		return nil
	case <-time.After(d):
		return fmt.Errorf("gate watchdog: not released within %s", d)
	}
}

// WaitArrived waits until a goroutine is blocked in the gate.
func (g *Gate) WaitArrived(d time.Duration) error {
	select {
	case <-g.arrived:
		return nil
	case <-time.After(d):
		return fmt.Errorf("gate watchdog: nobody arrived within %s", d)
	}
}

// Release lets the blocked goroutine continue (idempotent).
func (g *Gate) Release() {
	defer func() { recover() }()
	close(g.release)
}
