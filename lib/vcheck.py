# Shared machinery for /verif/bin/check: TLC runs (exhaustive / generation / trace validation),
# Go harness runs against the working tree of the repository with overlay-injected test files,
# verdict policy, known findings, evidence files.
#
# Exit codes of a check:  0 held / 1 violation (VIOLATION line printed) / 2 check broken (infrastructure).
import json, os, re, shutil, subprocess, sys, tempfile, time, hashlib, glob

VERIF = os.path.dirname(os.path.dirname(os.path.abspath(__file__)))
REPO = os.environ.get("VERIF_REPO", "/repo")
TLA_CP = "/opt/veriftools/tla/tla2tools.jar:/opt/veriftools/tla/CommunityModules-deps.jar"

GOENV = {
    "GOFLAGS": "-mod=mod", "GOPROXY": "off", "GOSUMDB": "off", "GOTOOLCHAIN": "local",
}


LOCKED_PKGS = {"coordinator"}


class Infra(Exception):
    """The check itself is broken (build failure, timeout, dead driver...). Exit 2, never a violation."""


def log(*a):
    print(*a, flush=True)


class Ctx:
    def __init__(self, prop, tier, seed, replay=None):
        self.prop = prop
        self.tier = tier
        self.seed = seed
        self.replay = replay
        self.repo = REPO
        self.t0 = time.time()
        base = os.environ.get("VERIF_TMP") or tempfile.gettempdir()
        self.scratch = tempfile.mkdtemp(prefix="verif-%s-" % prop, dir=base)
        self.violations = []      # (sig, detail, replay_path)
        self.known_hits = []      # (entry, detail)
        self.cov = {"states": 0, "transitions": 0, "traces_validated_against_impl": 0, "samples": [],
                    "tlc_runs": [], "go_runs": [], "exhaustive": False}
        self.assumptions = []
        self._known = None

    # ------------------------------------------------------------------ utilities
    def quick(self):
        return self.tier == "quick"

    def pick(self, quick, thorough):
        return quick if self.tier == "quick" else thorough

    def cleanup(self):
        if os.environ.get("VERIF_KEEP"):
            log("scratch kept:", self.scratch)
            return
        shutil.rmtree(self.scratch, ignore_errors=True)

    def spec_dir(self, *names):
        """Copy spec directories (and specs/common) into one fresh scratch directory; return it."""
        d = tempfile.mkdtemp(prefix="spec-", dir=self.scratch)
        for n in ("common",) + tuple(names):
            src = os.path.join(VERIF, "specs", n)
            if not os.path.isdir(src):
                continue
            for f in os.listdir(src):
                if os.path.isfile(os.path.join(src, f)):
                    shutil.copy(os.path.join(src, f), os.path.join(d, f))
        return d

    # ------------------------------------------------------------------ TLC
    def _tlc(self, sd, args, timeout, java_opts=None, heap=None):
        meta = tempfile.mkdtemp(prefix="meta-", dir=self.scratch)
        cmd = ["timeout", str(int(timeout)), "java", "-XX:+UseParallelGC"]
        if heap:
            cmd.append("-Xmx%s" % heap)
        cmd += ["-Xss64m"]
        cmd += (java_opts or [])
        cmd += ["-cp", TLA_CP, "tlc2.TLC", "-metadir", meta] + args
        t = time.time()
        p = subprocess.run(cmd, cwd=sd, stdout=subprocess.PIPE, stderr=subprocess.STDOUT, text=True, errors="replace")
        shutil.rmtree(meta, ignore_errors=True)
        return p.returncode, p.stdout, time.time() - t

    def tlc_check(self, sd, module, cfg=None, workers=8, timeout=600, coverage=False, heap="8g",
                  expect_ok=True, extra=None):
        """Exhaustive TLC run.  Returns dict(ok, generated, distinct, out, violated, wall).
        ok=False with 'violated' set when an invariant/property is violated (model-level lead).
        Raises Infra on timeouts and on any TLC error that is not a property violation."""
        args = ["-workers", str(workers), "-config", cfg or (module + ".cfg")]
        if coverage:
            args += ["-coverage", "1"]
        args += (extra or [])
        args += [module]
        rc, out, wall = self._tlc(sd, args, timeout, heap=heap)
        res = {"module": module, "cfg": cfg or module + ".cfg", "rc": rc, "wall_s": round(wall, 1), "out": out}
        m = re.findall(r"(\d+) states generated, (\d+) distinct states found, (\d+) states left on queue", out)
        if m:
            g, d, q = map(int, m[-1])
            res.update(generated=g, distinct=d, queue=q)
        else:
            res.update(generated=0, distinct=0, queue=0)
        if rc == 124:
            raise Infra("TLC timeout (%ss) on %s/%s" % (timeout, module, cfg))
        viol = re.findall(r"Error: (Invariant \S+ is violated|Action property \S+ is violated|Temporal properties were violated|Deadlock reached)", out)
        res["violated"] = viol
        res["ok"] = (rc == 0 and not viol)
        if rc != 0 and not viol:
            raise Infra("TLC failed rc=%s on %s/%s:\n%s" % (rc, module, cfg, out[-3000:]))
        if res["ok"] and res["queue"] != 0:
            raise Infra("TLC stopped with states on queue: %s" % module)
        self.cov["tlc_runs"].append({k: res[k] for k in ("module", "cfg", "generated", "distinct", "wall_s", "violated")})
        if res["ok"]:
            self.cov["states"] += res["distinct"]
            self.cov["transitions"] += res["generated"]
        if coverage:
            res["zero_coverage"] = self._zero_coverage(out)
        if expect_ok and not res["ok"]:
            # A model-level violation is a lead, never a verdict (DESIGN 4.9).
            raise Infra("model-level violation in %s/%s (%s): spec and code must be reconciled by replay first\n%s"
                        % (module, cfg, viol, out[-4000:]))
        return res

    @staticmethod
    def _zero_coverage(out):
        zero = []
        # TLC prints interim coverage reports too (late actions still show 0:0 there): use the last one only
        k = out.rfind("The coverage statistics at")
        if k >= 0:
            out = out[k:]
        for line in out.splitlines():
            m = re.match(r"^<(\w+) line (\d+), col .* of module (\w+)>: (\d+):(\d+)", line.strip())
            if m and int(m.group(4)) == 0 and int(m.group(5)) == 0:
                zero.append("%s@%s:%s" % (m.group(1), m.group(3), m.group(2)))
        return zero

    def tlc_generate(self, sd, module, cfg=None, num=200, depth=12, seed=None, timeout=300, extra_cfg=None,
                     marker="BEHAVIOUR", exhaustive=False, workers=1):
        """Run the Gen module; collect JSON behaviours printed as <<"BEHAVIOUR", "<json>">>.
        simulate mode by default; exhaustive=True runs BFS (hist is part of the state) and collects all prints."""
        seed = self.seed if seed is None else seed
        if exhaustive:
            args = ["-workers", str(workers), "-config", cfg or (module + ".cfg"), module]
        else:
            args = ["-workers", "1", "-simulate", "num=%d" % num, "-depth", str(depth), "-seed", str(seed),
                    "-config", cfg or (module + ".cfg"), module]
        rc, out, wall = self._tlc(sd, args, timeout, heap="8g")
        if rc == 124:
            raise Infra("TLC generation timeout on %s" % module)
        if rc != 0:
            raise Infra("TLC generation failed rc=%s on %s:\n%s" % (rc, module, out[-3000:]))
        behs = []
        seen = set()
        pref = '<<"%s", "' % marker
        for line in out.splitlines():
            line = line.strip()
            if line.startswith(pref) and line.endswith('">>'):
                body = line[len(pref):-3]
                try:
                    txt = json.loads('"' + body + '"')
                    h = hashlib.sha1(txt.encode()).hexdigest()
                    if h in seen:
                        continue
                    seen.add(h)
                    behs.append(json.loads(txt))
                except Exception as e:
                    raise Infra("cannot parse generated behaviour: %s: %s" % (e, line[:300]))
        m = re.findall(r"(\d+) states generated, (\d+) distinct states found", out)
        self.cov["tlc_runs"].append({"module": module, "cfg": cfg or module + ".cfg", "mode": "generate-exhaustive" if exhaustive else "simulate",
                                     "behaviours": len(behs), "wall_s": round(wall, 1)})
        if exhaustive and m:
            self.cov["states"] += int(m[-1][1])
            self.cov["transitions"] += int(m[-1][0])
        if not behs:
            raise Infra("TLC generated no behaviours for %s:\n%s" % (module, out[-2000:]))
        return behs

    def tlc_trace(self, sd, module, trace_path, cfg=None, timeout=300, trace_name="trace.ndjson", extra_invs=None):
        """Validate a recorded ndjson trace against Trace module.  Returns dict(accepted, matched, total, out).
        Acceptance = POSTCONDITION of the cfg held (TLC rc 0).  The trace spec keeps the high-water mark in
        TLCSet(1) and prints it through PrintT(<<"HWM", n>>) in its postcondition."""
        shutil.copy(trace_path, os.path.join(sd, trace_name))
        args = ["-workers", "1", "-config", cfg or (module + ".cfg"), module]
        rc, out, wall = self._tlc(sd, args, timeout, heap="8g",
                                  java_opts=["-Dtlc2.tool.queue.IStateQueue=StateDeque"])
        if rc == 124:
            raise Infra("TLC trace validation timeout on %s" % module)
        hwm = re.findall(r'<<"HWM", (\d+), (\d+)>>', out)
        matched, total = (int(hwm[-1][0]), int(hwm[-1][1])) if hwm else (-1, -1)
        viol = re.findall(r"Error: (Invariant \S+ is violated|Action property \S+ is violated)", out)
        accepted = (rc == 0 and matched == total and total >= 0)
        if rc != 0 and not viol and "Postcondition" not in out and "postcondition" not in out:
            raise Infra("TLC trace validation failed rc=%s on %s:\n%s" % (rc, module, out[-3000:]))
        self.cov["tlc_runs"].append({"module": module, "mode": "trace", "accepted": accepted, "matched": matched,
                                     "total": total, "wall_s": round(wall, 1), "violated": viol})
        return {"accepted": accepted, "matched": matched, "total": total, "violated": viol, "out": out}

    # ------------------------------------------------------------------ Go harness
    def overlay(self, pkgs_files):
        """pkgs_files: {repo-relative package dir: [harness file paths relative to /verif/harness]}.
        vtrace (overlay-only helper package) is always added.  Only ever adds files."""
        rep = {}
        for pkg, files in pkgs_files.items():
            for f in files:
                src = os.path.join(VERIF, "harness", f)
                if not os.path.isfile(src):
                    raise Infra("missing harness file " + src)
                dst = os.path.join(self.repo, pkg, os.path.basename(f))
                if os.path.exists(dst):
                    raise Infra("overlay would replace an existing repository file: " + dst)
                rep[dst] = src
        vt = os.path.join(VERIF, "harness", "vtrace")
        for f in os.listdir(vt):
            if f.endswith(".go"):
                rep[os.path.join(self.repo, "pkg", "verifx", "vtrace", f)] = os.path.join(vt, f)
        p = os.path.join(self.scratch, "overlay-%d.json" % len(os.listdir(self.scratch)))
        with open(p, "w") as fh:
            json.dump({"Replace": rep}, fh)
        return p

    def go_test(self, pkg, files, run, env=None, timeout=600, race=False, extra_pkgs=None, tags="verif", label=None,
                parallel=None, args=None):
        """Build package `pkg` (repo-relative, e.g. 'services/hh') from the repository's working tree with
        the harness files injected, run tests matching `run`.  Returns (records, output).
        Records are the ndjson lines the harness wrote to $VERIF_OUT."""
        pf = {pkg: files}
        for k, v in (extra_pkgs or {}).items():
            pf[k] = v
        ov = self.overlay(pf)
        outp = os.path.join(self.scratch, "out-%d.ndjson" % len(os.listdir(self.scratch)))
        e = dict(os.environ)
        e.update(GOENV)
        e.update({"VERIF_OUT": outp, "VERIF_SEED": str(self.seed), "VERIF_TIER": self.tier,
                  "VERIF_SCRATCH": self.scratch})
        e.update({k: str(v) for k, v in (env or {}).items()})
        cmd = ["go", "test", "-tags", tags, "-vet=off", "-count=1", "-overlay", ov, "-run", run,
               "-timeout", "%ds" % int(timeout)]
        if pkg in LOCKED_PKGS and "-exec" not in e.get("GOFLAGS", ""):
            # private network namespace for test binaries that bind fixed ports (see lib/netns_exec.sh)
            cmd += ["-exec", os.path.join(VERIF, "lib", "netns_exec.sh")]
        if race:
            cmd.append("-race")
        if parallel:
            cmd += ["-parallel", str(parallel)]
        cmd += ["./" + pkg]
        if args:
            cmd += ["-args"] + args
        # The repository's own coordinator tests bind 127.0.0.1:7777 in an init(); two test binaries of that
        # package cannot run at the same time on one machine.  Serialise them across all checks.
        lockf = None
        if pkg in LOCKED_PKGS or any(k in LOCKED_PKGS for k in (extra_pkgs or {})):
            import fcntl
            lockf = open("/tmp/verif-gotest-%s.lock" % pkg.replace("/", "_"), "w")
            fcntl.flock(lockf, fcntl.LOCK_EX)
        t = time.time()
        try:
            p = subprocess.run(cmd, cwd=self.repo, env=e, stdout=subprocess.PIPE, stderr=subprocess.STDOUT,
                               timeout=timeout + 300)
            out = p.stdout.decode("utf-8", "replace")
            rc = p.returncode
        except subprocess.TimeoutExpired as ex:
            raise Infra("go test outer timeout: %s" % " ".join(cmd))
        finally:
            if lockf is not None:
                lockf.close()
        wall = time.time() - t
        recs = []
        if os.path.exists(outp):
            with open(outp, errors="replace") as fh:
                for line in fh:
                    line = line.strip()
                    if line:
                        try:
                            recs.append(json.loads(line))
                        except Exception:
                            raise Infra("unparsable harness record: " + line[:200])
        self.cov["go_runs"].append({"pkg": pkg, "run": run, "label": label, "rc": rc, "wall_s": round(wall, 1),
                                    "records": len(recs), "race": race})
        if "[build failed]" in out or "[setup failed]" in out or re.search(r"^# ", out, re.M) and rc != 0 and not recs:
            raise Infra("harness build failed for %s:\n%s" % (pkg, out[-4000:]))
        return recs, out, rc

    # ------------------------------------------------------------------ verdicts
    def known_findings(self):
        if self._known is None:
            p = os.path.join(VERIF, "known", self.prop + ".json")
            self._known = json.load(open(p)) if os.path.exists(p) else {"known": [], "fixed": []}
        return self._known

    def match_known(self, sig):
        for e in self.known_findings().get("known", []):
            if e["property"] == self.prop and re.fullmatch(e["signature"], sig):
                return e
        return None

    def report_mismatch(self, sig, detail, replay_obj):
        """A real-code outcome that the property forbids.  sig identifies the specific input / call site /
        history class; a sig listed in known_findings.json is reported as KNOWN-FINDING, anything else as VIOLATION."""
        e = self.match_known(sig)
        if e is not None:
            if not any(k[0]["id"] == e["id"] for k in self.known_hits):
                self.known_hits.append((e, detail))
            return False
        if any(v[0] == sig for v in self.violations):
            return True
        d = os.path.join(VERIF, "replays", self.prop)
        os.makedirs(d, exist_ok=True)
        name = re.sub(r"[^A-Za-z0-9_.-]+", "_", sig)[:80] + "-" + hashlib.sha1(
            json.dumps(replay_obj, sort_keys=True).encode()).hexdigest()[:8] + ".json"
        path = os.path.join(d, name)
        with open(path, "w") as fh:
            json.dump({"property": self.prop, "signature": sig, "detail": detail, "replay": replay_obj}, fh, indent=1)
        self.violations.append((sig, detail, path))
        return True

    def process(self, recs, out, rc, test, confirm=None):
        """Digest harness records: dead-driver guard, mismatches -> verdicts, samples, counters.
        confirm(replay_obj) -> bool re-runs one behaviour on its own; a mismatch that does not reproduce is a
        broken check (exit 2), never a violation."""
        done = [r for r in recs if r.get("k") == "done" and r.get("test") == test]
        mism = [r for r in recs if r.get("k") == "mismatch"]
        if not done and not mism:
            raise Infra("driver %s did not complete (rc=%s):\n%s" % (test, rc, out[-4000:]))
        if not done and mism:
            log("note: driver %s stopped early (rc=%s)" % (test, rc))
            if all(r["sig"].startswith("note:") or self.match_known(r["sig"]) is not None for r in mism):
                # only recorded findings / notes so far, and the driver died: nothing new was established
                raise Infra("driver %s did not complete (rc=%s) and reported only known findings:\n%s" % (test, rc, out[-4000:]))
        mism_real = [r for r in mism if not r["sig"].startswith("note:")]
        if rc != 0 and not mism_real:
            raise Infra("driver %s failed without a mismatch record (rc=%s):\n%s" % (test, rc, out[-4000:]))
        for r in recs:
            if r.get("k") == "sample":
                self.add_sample(r.get("v"))
        seen = set()
        for r in mism:
            sig = r["sig"]
            if sig in seen:
                continue
            seen.add(sig)
            if sig.startswith("note:"):
                # the implementation left the model's physical refinement (layout), but no observable the
                # property talks about differs: recorded, not a violation (the behaviour is not judged further)
                self.cov.setdefault("conformance_notes", []).append("%s: %s" % (sig, str(r.get("detail"))[:300]))
                continue
            if self.match_known(sig) is None and confirm is not None and not self.replay:
                if not confirm(r.get("replay")):
                    raise Infra("mismatch %s did not reproduce when replayed alone: %s" % (sig, r.get("detail")))
            self.report_mismatch(sig, r.get("detail"), r.get("replay"))
        return done[0] if done else {}

    def write_json(self, name, obj):
        p = os.path.join(self.scratch, name)
        with open(p, "w") as fh:
            json.dump(obj, fh)
        return p

    def write_cfg(self, sd, name, spec, consts, invariants=(), constraint=None, extra=""):
        """Configs are generated from one Python dict of constants per tier (single source of truth)."""
        def fmt(v):
            if isinstance(v, bool):
                return "TRUE" if v else "FALSE"
            if isinstance(v, (set, frozenset, list, tuple)):
                return "{" + ", ".join(fmt(x) for x in (sorted(v, key=str) if isinstance(v, (set, frozenset)) else v)) + "}"
            if isinstance(v, str):
                return v if v.startswith("@") is False and v.startswith('"') else v.lstrip("@")
            return str(v)
        lines = ["SPECIFICATION " + spec, "CONSTANTS"]
        for k, v in consts.items():
            lines.append("  %s = %s" % (k, fmt(v)))
        if constraint:
            lines.append("CONSTRAINT " + constraint)
        if invariants:
            lines.append("INVARIANTS " + " ".join(invariants))
        lines.append("CHECK_DEADLOCK FALSE")
        if extra:
            lines.append(extra)
        with open(os.path.join(sd, name), "w") as fh:
            fh.write("\n".join(lines) + "\n")
        return name

    def add_sample(self, s, limit=6):
        if len(self.cov["samples"]) < limit:
            self.cov["samples"].append(s)

    # ------------------------------------------------------------------ finish
    def finish(self, level, extra_cov=None, assumptions=None):
        cov = dict(self.cov)
        cov.update(extra_cov or {})
        cov["known_findings_reproduced"] = [k[0]["id"] for k in self.known_hits]
        if not cov["samples"]:
            cov["samples"] = ["(no sample recorded)"]
        ev = {
            "property_id": self.prop, "tier": self.tier, "seed": int(self.seed), "level": level,
            "coverage": cov, "assumptions": (assumptions or []) + self.assumptions,
            "wall_s": round(time.time() - self.t0, 1), "violations": len(self.violations),
        }
        if not self.replay:
            os.makedirs(os.path.join(VERIF, "evidence"), exist_ok=True)
            with open(os.path.join(VERIF, "evidence", self.prop + ".json"), "w") as fh:
                json.dump(ev, fh, indent=1, default=str)
        for e, detail in self.known_hits:
            log("KNOWN-FINDING: property=%s %s [%s] %s" % (self.prop, e["id"], e["what"], str(detail)[:300]))
        for sig, detail, path in self.violations:
            log("VIOLATION property=%s replay=%s" % (self.prop, path))
            log("  signature: %s" % sig)
            log("  detail: %s" % str(detail)[:1500])
        return 1 if self.violations else 0


def main(argv):
    import argparse, importlib
    ap = argparse.ArgumentParser()
    ap.add_argument("prop")
    ap.add_argument("--tier", default=os.environ.get("VERIF_TIER", "quick"), choices=["quick", "thorough"])
    ap.add_argument("--replay", default=None)
    a = ap.parse_args(argv)
    seed = int(os.environ.get("VERIF_SEED", "1") or "1")
    sys.path.insert(0, os.path.join(VERIF, "checks"))
    mod = importlib.import_module(a.prop.lower())
    ctx = Ctx(a.prop.upper(), a.tier, seed, a.replay)
    rc = 2
    try:
        rc = mod.run(ctx)
    except Infra as e:
        log("CHECK-BROKEN property=%s: %s" % (ctx.prop, e))
        rc = 2
    except Exception:
        import traceback
        traceback.print_exc()
        log("CHECK-BROKEN property=%s: internal error" % ctx.prop)
        rc = 2
    finally:
        ctx.cleanup()
    log("check %s tier=%s seed=%s exit=%s wall=%.1fs" % (ctx.prop, a.tier, seed, rc, time.time() - ctx.t0))
    return rc
