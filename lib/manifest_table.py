# Source of MANIFEST.json (bin/mkmanifest writes it).  One entry per claimed property.
CHECKS = {
 "C04": dict(
   category="model_checking",
   text="HHQueue.tla (queue + node processor, one action per critical section of queue.go) is checked exhaustively by TLC "
        "(2 concurrent appenders incl. buffered path, consumer, close/open, crash, segment-size change, ageing/purge); "
        "TLC-generated behaviours are replayed on the real hh.queue with the projected on-disk state, Current/Empty answers "
        "compared after every step, and a crash image is taken at every durable step (hooks) and for torn prefixes of the "
        "flush in progress; each image is recovered by a fresh real queue and compared with the property's must/may sets.",
   design_ref="DESIGN.md §5 C04",
   note="Trusted: TLC, the OS file semantics of the sandbox (a crash image = directory copy; torn tail = prefix of the unsynced write). "
        "Bounds: model <=4 blocks, 3-4 segments; replay behaviours of 14 steps. Two recorded findings (F3 ack-before-durable, F4 torn flush) are tainted.",
   technique="TLA+ spec + TLC exhaustive; TLC-generated behaviours replayed on real code with crash images"),
}
NOT_BUILT_REASON = "check not built yet in this round (planned per DESIGN.md §5); not claimed until it is green on the unchanged tree"
ALL = ["C%02d" % i for i in range(1, 20)]
HOOK_COMMITS = []  # filled by bin/mkmanifest from `git log --grep` in /repo
