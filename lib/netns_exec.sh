#!/bin/sh
# go test -exec wrapper: run the test binary in a private network namespace (own loopback), so that test
# binaries of the same package started by concurrent checks cannot collide on fixed ports (coordinator's
# pool_test.go binds 127.0.0.1:7777 in init and log.Fatal's when it is taken).  Falls back to a plain exec
# where namespaces are not available.
if unshare -n true 2>/dev/null; then
  exec unshare -n sh -c 'ip link set lo up 2>/dev/null || ifconfig lo up 2>/dev/null; exec "$@"' sh "$@"
fi
exec "$@"
