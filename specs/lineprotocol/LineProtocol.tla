---------------------------- MODULE LineProtocol ----------------------------
(* C12 - grammar-directed generator of line-protocol lines together with their meaning.          *)
(*                                                                                                *)
(* The actions append syntactic elements (leading blanks, measurement form, tag forms, first     *)
(* separator, field forms, timestamp form + precision, second separator, line tail).  Next to    *)
(* the raw text the module computes the abstract meaning                                          *)
(*     [meas, tags (sorted by key), fields (in text order: name, type, value), time]             *)
(* or Reject(reason) or Skip (comment / blank line) FROM THE DOCUMENTED GRAMMAR (InfluxDB 1.x     *)
(* line protocol reference): the key section is re-read from its raw bytes by the reference      *)
(* tokenizer RefKey (escape-aware split at unescaped ',' '=' ' ', unescape, duplicate check,     *)
(* canonical sort); field values and timestamps are table-driven (TLC has 32-bit integers, so    *)
(* 64-bit literals are carried as text with their canonical value as text).                      *)
(*                                                                                                *)
(* Bytes: 0..255 are literal bytes.  Values >= 1000 are "plain" name characters that the harness *)
(* renders through a seed-chosen, ORDER-PRESERVING map into their band:                          *)
(*    11xx -> "-./0123456789" (between ',' and '='), 12xx -> 'A'..'Z' (between '=' and '\'),      *)
(*    13xx -> 'a'..'s' (above '\', below 't' of the literal key "time").                         *)
(* Ord gives the byte order every rendering has, so the canonical tag order is decided here.     *)
(*                                                                                                *)
(* "(cal)" marks expectations the reference does not state; they were calibrated against the     *)
(* running parser once and are frozen here (see notes/C12.md).                                    *)
EXTENDS Integers, Sequences, FiniteSets, TLC, Json

CONSTANTS MaxTags, MaxFields, MaxWeird,
          Rich          \* TRUE: full catalogs (thorough), FALSE: the core catalogs (quick)

COMMA == 44  SPACE == 32  EQ == 61  QUOTE == 34  BSL == 92  NL == 10  CR == 13  TAB == 9  NUL == 0
HASH == 35   XFF == 255

Ord(c) == IF c < 1000 THEN c * 100
          ELSE IF c < 1200 THEN 4500 + (c - 1100)
          ELSE IF c < 1300 THEN 6500 + (c - 1200)
          ELSE 9700 + (c - 1300)

RECURSIVE LexLess(_, _)
LexLess(a, b) == IF a = <<>> THEN b # <<>>
                 ELSE IF b = <<>> THEN FALSE
                 ELSE IF Ord(a[1]) # Ord(b[1]) THEN Ord(a[1]) < Ord(b[1])
                 ELSE LexLess(Tail(a), Tail(b))

-----------------------------------------------------------------------------
(* Catalogs of element forms: name -> raw bytes                                                   *)

MeasFormsCore == {"plain", "escComma", "escSpace", "eq", "quote", "trailBsl", "empty", "hash", "nonutf8"}
MeasFormsRich == MeasFormsCore \cup {"escEq", "bslMid", "nul", "hashMid", "tabMid", "dblBslComma", "utf8"}
MeasForms == IF Rich THEN MeasFormsRich ELSE MeasFormsCore
MeasRaw(f) ==
  CASE f = "plain"       -> <<1305, 1306>>
    [] f = "escComma"    -> <<1305, BSL, COMMA, 1306>>
    [] f = "escSpace"    -> <<1305, BSL, SPACE, 1306>>
    [] f = "eq"          -> <<1305, EQ, 1306>>            \* '=' needs no escape in a measurement
    [] f = "escEq"       -> <<1305, BSL, EQ, 1306>>       \* '\=' is not an escape in a measurement: both bytes literal
    [] f = "quote"       -> <<1305, QUOTE, 1306>>
    [] f = "bslMid"      -> <<1305, BSL, 1306>>           \* a backslash before an ordinary byte is literal
    [] f = "dblBslComma" -> <<1305, BSL, BSL, COMMA, 1306>> \* literal backslash + escaped comma
    [] f = "trailBsl"    -> <<1305, BSL>>                 \* escapes whatever follows (the separator!)
    [] f = "nonutf8"     -> <<1305, XFF, 1306>>
    [] f = "utf8"        -> <<1305, 195, 169, 1306>>
    [] f = "nul"         -> <<1305, NUL, 1306>>
    [] f = "hashMid"     -> <<1305, HASH>>
    [] f = "tabMid"      -> <<1305, TAB, 1306>>           \* (cal) a tab is an ordinary byte inside the key
    [] f = "hash"        -> <<HASH, 1305>>                \* comment line
    [] f = "empty"       -> <<>>

\* padding of the measurement so that the series key (key + 4 + longest field key) meets the 65535 limit
Pads == IF Rich THEN {"none", "atLimit", "overLimit"} ELSE {"none", "overLimit"}

K(id) == 1310 + id          \* first byte of tag key number id (band L)
TagKeyFormsCore == {"plain", "plainU", "longD", "escComma", "escSpace", "escEq", "empty", "time"}
TagKeyFormsRich == TagKeyFormsCore \cup {"bslMid", "nonutf8", "quote", "trailBsl", "noEq", "longEsc", "longU"}
TagKeyForms == IF Rich THEN TagKeyFormsRich ELSE TagKeyFormsCore
TagKeyRaw(f, id) ==
  CASE f = "plain"    -> <<K(id), 1307>>
    [] f = "plainU"   -> <<K(1), 1201>>                   \* shares its first byte with the forms of key 1: with
                                                          \* "escSpace"/"escComma" of key 1 the order by escaped text
                                                          \* ('\' = 92 > 'A'..'Z') differs from the order of the keys
    \* prefix-related keys: the plain key of key 1 followed by more bytes.  In the text the shorter key is followed
    \* by '=' (61): comparing raw text instead of names puts "host1" (digit band < '=') before "host"
    [] f = "longD"    -> <<K(1), 1307, 1101>>
    [] f = "longU"    -> <<K(1), 1307, 1201>>
    [] f = "longEsc"  -> <<K(1), 1307, BSL, EQ, 1101>>       \* "host=1": an escaped '=' right after the shared prefix
    [] f = "escComma" -> <<K(id), BSL, COMMA, 1307>>
    [] f = "escSpace" -> <<K(id), BSL, SPACE, 1307>>
    [] f = "escEq"    -> <<K(id), BSL, EQ, 1307>>
    [] f = "bslMid"   -> <<K(id), BSL, 1307>>
    [] f = "nonutf8"  -> <<K(id), XFF>>
    [] f = "quote"    -> <<K(id), QUOTE, 1307>>
    [] f = "trailBsl" -> <<K(id), BSL>>                   \* escapes the '=' that follows
    [] f = "noEq"     -> <<K(id), 1307>>                  \* rendered without "=value"
    [] f = "time"     -> <<116, 105, 109, 101>>
    [] f = "empty"    -> <<>>

TagValFormsCore == {"plain", "escComma", "escSpace", "escEq", "empty", "rawEq"}
TagValFormsRich == TagValFormsCore \cup {"quote", "bslMid", "trailBsl", "nonutf8", "digits"}
TagValForms == IF Rich THEN TagValFormsRich ELSE TagValFormsCore
TagValRaw(f, id) ==
  CASE f = "plain"    -> <<1320 + id, 1101>>
    [] f = "escComma" -> <<1320 + id, BSL, COMMA, 1101>>
    [] f = "escSpace" -> <<1320 + id, BSL, SPACE, 1101>>
    [] f = "escEq"    -> <<1320 + id, BSL, EQ, 1101>>
    [] f = "rawEq"    -> <<1320 + id, EQ, 1101>>          \* unescaped '=' in a tag value: malformed
    [] f = "quote"    -> <<QUOTE, 1320 + id, QUOTE>>      \* quotes are ordinary bytes in tag values
    [] f = "bslMid"   -> <<1320 + id, BSL, 1101>>
    [] f = "trailBsl" -> <<1320 + id, BSL>>               \* escapes the ',' or ' ' that follows
    [] f = "nonutf8"  -> <<XFF, 1320 + id>>
    [] f = "digits"   -> <<1101, 1102>>
    [] f = "empty"    -> <<>>

F(id) == 1330 + id
FieldKeyFormsCore == {"plain", "escComma", "escSpace", "escEq", "empty", "time"}
FieldKeyFormsRich == FieldKeyFormsCore \cup {"quote", "bslMid", "nonutf8", "noEq"}
FieldKeyForms == IF Rich THEN FieldKeyFormsRich ELSE FieldKeyFormsCore
FieldKeyRaw(f, id) ==
  CASE f = "plain"    -> <<F(id), 1308>>
    [] f = "escComma" -> <<F(id), BSL, COMMA, 1308>>
    [] f = "escSpace" -> <<F(id), BSL, SPACE, 1308>>
    [] f = "escEq"    -> <<F(id), BSL, EQ, 1308>>
    [] f = "quote"    -> <<F(id), QUOTE, 1308>>           \* quotes are ordinary bytes in field keys
    [] f = "bslMid"   -> <<F(id), BSL, 1308>>
    [] f = "nonutf8"  -> <<F(id), XFF>>
    [] f = "noEq"     -> <<F(id), 1308>>                  \* rendered without "=value"
    [] f = "time"     -> <<116, 105, 109, 101>>
    [] f = "empty"    -> <<>>

\* Field values.  Numbers and booleans: literal text, type, accepted?, canonical value (text, parsed by the
\* harness with strconv into int64 / uint64 / float64 bits).
Num(txt, ty, ok, val) == [txt |-> txt, ty |-> ty, ok |-> ok, val |-> val]
NumFormsCore == {
  Num("1", "float", TRUE, "1"), Num("-1.5", "float", TRUE, "-1.5"), Num("1e5", "float", TRUE, "100000"),
  Num("1E-5", "float", TRUE, "0.00001"), Num("-0", "float", TRUE, "-0"), Num("+1", "float", FALSE, ""),
  Num("1.7976931348623157e308", "float", TRUE, "1.7976931348623157e308"), Num("1e309", "float", FALSE, ""),
  Num("NaN", "float", FALSE, ""), Num("1.1.1", "float", FALSE, ""), Num("-", "float", FALSE, ""),
  Num("0i", "integer", TRUE, "0"), Num("-9223372036854775808i", "integer", TRUE, "-9223372036854775808"),
  Num("9223372036854775807i", "integer", TRUE, "9223372036854775807"),
  Num("9223372036854775808i", "integer", FALSE, ""), Num("1.0i", "integer", FALSE, ""),
  Num("0u", "unsigned", TRUE, "0"), Num("18446744073709551615u", "unsigned", TRUE, "18446744073709551615"),
  Num("18446744073709551616u", "unsigned", FALSE, ""), Num("-1u", "unsigned", FALSE, ""),
  Num("t", "boolean", TRUE, "true"), Num("TRUE", "boolean", TRUE, "true"), Num("False", "boolean", TRUE, "false"),
  Num("tRUE", "boolean", FALSE, ""), Num("", "none", FALSE, "") }
NumFormsRich == NumFormsCore \cup {
  Num("1.", "float", TRUE, "1"),                 \* (cal) trailing dot accepted
  Num(".5", "float", TRUE, "0.5"),               \* (cal) leading dot accepted
  Num("-.5", "float", TRUE, "-0.5"), Num("1e+5", "float", TRUE, "100000"), Num("0.1", "float", TRUE, "0.1"),
  Num("4.9e-324", "float", TRUE, "4.9e-324"), Num("1e-400", "float", TRUE, "0"),
  Num("123456789012345678901234567890", "float", TRUE, "123456789012345678901234567890"),
  Num("0.30000000000000004", "float", TRUE, "0.30000000000000004"),
  Num("-1.7976931348623157e308", "float", TRUE, "-1.7976931348623157e308"),
  Num("1.8e308", "float", FALSE, ""), Num("1e", "float", FALSE, ""), Num("e5", "float", FALSE, ""),
  Num(".", "float", FALSE, ""), Num("0x10", "float", FALSE, ""), Num("1_0", "float", FALSE, ""),
  Num("Inf", "float", FALSE, ""), Num("nan", "float", FALSE, ""), Num("1e5e5", "float", FALSE, ""), Num("--1", "float", FALSE, ""),
  Num("1i", "integer", TRUE, "1"), Num("-1i", "integer", TRUE, "-1"), Num("-0i", "integer", TRUE, "0"),
  Num("007i", "integer", TRUE, "7"), Num("9223372036854775806i", "integer", TRUE, "9223372036854775806"),
  Num("-9223372036854775809i", "integer", FALSE, ""), Num("99999999999999999999i", "integer", FALSE, ""),
  Num("1e5i", "integer", FALSE, ""), Num("i", "integer", FALSE, ""), Num("1ii", "integer", FALSE, ""), Num("1i1", "integer", FALSE, ""),
  Num("-i", "integer", FALSE, ""), Num("1I", "integer", FALSE, ""),
  Num("1u", "unsigned", TRUE, "1"), Num("9223372036854775808u", "unsigned", TRUE, "9223372036854775808"),
  Num("99999999999999999999u", "unsigned", FALSE, ""), Num("1.0u", "unsigned", FALSE, ""), Num("u", "unsigned", FALSE, ""), Num("1uu", "unsigned", FALSE, ""),
  Num("T", "boolean", TRUE, "true"), Num("true", "boolean", TRUE, "true"), Num("True", "boolean", TRUE, "true"),
  Num("f", "boolean", TRUE, "false"), Num("F", "boolean", TRUE, "false"), Num("false", "boolean", TRUE, "false"),
  Num("FALSE", "boolean", TRUE, "false"),
  Num("yes", "boolean", FALSE, ""), Num("tr", "boolean", FALSE, ""), Num("truee", "boolean", FALSE, ""), Num("fALSE", "boolean", FALSE, ""),
  Num("TrUe", "boolean", FALSE, ""), Num("null", "boolean", FALSE, "") }
NumForms == IF Rich THEN NumFormsRich ELSE NumFormsCore
DefaultNum == Num("1", "float", TRUE, "1")

\* String values: the bytes between (and including) the quotes.  Escapes inside a string: \" and \\ only.
StrFormsCore == {"empty", "plain", "specials", "escQuote", "escBsl", "newline", "unterminated", "junkAfter"}
StrFormsRich == StrFormsCore \cup {"bslOther", "trailDblBsl", "bslQuoteEnd", "nonutf8", "quoteOnly", "tripleBsl"}
StrForms == IF Rich THEN StrFormsRich ELSE StrFormsCore
StrRaw(f) ==
  CASE f = "empty"        -> <<QUOTE, QUOTE>>
    [] f = "plain"        -> <<QUOTE, 1309, 1310, QUOTE>>
    [] f = "specials"     -> <<QUOTE, 1309, SPACE, COMMA, EQ, 1310, QUOTE>>   \* no escaping needed inside quotes
    [] f = "escQuote"     -> <<QUOTE, 1309, BSL, QUOTE, 1310, QUOTE>>
    [] f = "escBsl"       -> <<QUOTE, 1309, BSL, BSL, 1310, QUOTE>>
    [] f = "newline"      -> <<QUOTE, 1309, NL, 1310, QUOTE>>                 \* (cal) a quoted string may span lines
    [] f = "bslOther"     -> <<QUOTE, 1309, BSL, 1310, QUOTE>>                \* backslash before an ordinary byte: literal
    [] f = "trailDblBsl"  -> <<QUOTE, 1309, BSL, BSL, QUOTE>>                 \* value ends with one backslash
    [] f = "tripleBsl"    -> <<QUOTE, BSL, BSL, BSL, 1309, QUOTE>>            \* reference table: \\\ means \\
    [] f = "bslQuoteEnd"  -> <<QUOTE, 1309, BSL, QUOTE>>                      \* closing quote escaped: unterminated
    [] f = "nonutf8"      -> <<QUOTE, XFF, 1309, QUOTE>>
    [] f = "quoteOnly"    -> <<QUOTE>>                                        \* a lone quote
    [] f = "unterminated" -> <<QUOTE, 1309, 1310>>
    [] f = "junkAfter"    -> <<QUOTE, 1309, QUOTE, 1310>>                     \* bytes after the closing quote: malformed

\* reference reading of a string literal: s[1] is the opening quote; scan to the first unescaped quote.
RECURSIVE StrScan(_, _, _)
StrScan(s, i, acc) ==   \* returns [ok, val, end]
  IF i > Len(s) THEN [ok |-> FALSE, val |-> acc, end |-> i]
  ELSE IF s[i] = BSL /\ i < Len(s) /\ s[i + 1] \in {QUOTE, BSL} THEN StrScan(s, i + 2, Append(acc, s[i + 1]))
  ELSE IF s[i] = QUOTE THEN [ok |-> TRUE, val |-> acc, end |-> i]
  ELSE StrScan(s, i + 1, Append(acc, s[i]))
StrMeaning(f) == LET s == StrRaw(f)  r == StrScan(s, 2, <<>>) IN
  IF ~r.ok THEN [ok |-> FALSE, reason |-> "unbalanced quotes"]
  ELSE IF r.end # Len(s) THEN [ok |-> FALSE, reason |-> "junk after string"]
  ELSE [ok |-> TRUE, val |-> r.val]

\* Timestamps: symbolic (64-bit).  maxfit(p) = floor(MaxNanoTime / mult(p)), minfit(p) = -floor(-MinNanoTime / mult(p));
\* the harness instantiates them with math/big.  ok = the documented range MinNanoTime..MaxNanoTime after scaling.
TsF(base, off, ok) == [base |-> base, off |-> off, ok |-> ok]
TsFormsCore == { TsF("absent", 0, TRUE), TsF("zero", 0, TRUE), TsF("zero", 1, TRUE), TsF("zero", -1, TRUE),
                 TsF("maxfit", 0, TRUE), TsF("maxfit", 1, FALSE), TsF("minfit", 0, TRUE), TsF("minfit", -1, FALSE),
                 TsF("maxint64", 0, FALSE), TsF("overint64", 0, FALSE), TsF("nondigit", 0, FALSE) }
               \cup {TsF("multiwrap", o, FALSE) : o \in 0..3} \cup {TsF("lit1700000000000", 1, TRUE)}
\* "multiwrap": the scaled value overflows int64 by MORE than one wrap: |ts * mult| = k*2^64 + r (+ less than mult),
\* off = 4*ki + 2*parity + neg with k = <<1, 2, 5>>[ki+1]; parity 0: r = 2^62 (the wrapped product has the sign of ts
\* and lies inside the valid range), parity 1: r = 2^63 + 2^62 (the wrapped product has the other sign); neg: ts < 0.
\* Out of range at every precision (with n the text itself is beyond int64).  A sign-only overflow test accepts the
\* parity-0 ones with a wrapped-around time.
\* "lit...": millisecond / second / hour-scale literals sent with a coarser precision (off = sign); TsOk has their
\* exact range table, and the harness re-derives every numeric expectation with math/big (guard against the table).
TsFormsRich == TsFormsCore \cup { TsF("maxfit", -1, TRUE), TsF("minfit", 1, TRUE), TsF("minint64", 0, FALSE),
                 TsF("minint64", 1, FALSE),     \* MinInt64+1 = MinNanoTime-1: reserved, rejected at every precision
                 TsF("float", 0, FALSE), TsF("plus", 0, FALSE), TsF("minusOnly", 0, FALSE),
                 TsF("leadingZeros", 0, TRUE),  \* (cal) "007" reads as 7
                 TsF("wrap", 0, FALSE) }        \* 2^62+1: product wraps around for every precision but n; n: in range
               \cup {TsF("multiwrap", o, FALSE) : o \in 0..11}
               \cup {TsF(b, sg, TRUE) : b \in {"lit1700000000000", "lit18446744074", "lit5124096"}, sg \in {1, -1}}
Precisions == IF Rich THEN {"n", "u", "ms", "s", "m", "h"} ELSE {"n", "ms", "h"}
\* with precision n the forms maxint64 / minint64 are out of the range by one or two; "wrap" is in range for n
TsOk(t, p) == IF t.base = "wrap" THEN p = "n"
              ELSE IF t.base = "lit1700000000000" THEN p \in {"n", "u", "ms"}        \* 1.7e12 * 1e9 > 2^63
              ELSE IF t.base = "lit18446744074" THEN p \in {"n", "u", "ms"}          \* * 1e9 = 2^64 + 290448384
              ELSE IF t.base = "lit5124096" THEN p \in {"n", "u", "ms", "s", "m"}    \* * 3.6e12 = 2^64 + 1526290448384
              ELSE t.ok

LeadForms == IF Rich THEN {"none", "space", "tab", "nul"} ELSE {"none", "space"}      \* (cal) tab / NUL are skipped like spaces
Sep1Forms == IF Rich THEN {"space", "spaces", "spaceTab", "tabOnly"} ELSE {"space", "spaces"}
Sep2Forms == IF Rich THEN {"space", "spaces", "spaceTab"} ELSE {"space", "spaces"}
TailForms == IF Rich THEN {"none", "space", "spaces", "cr", "tab"} ELSE {"none", "space", "cr"}
SepRaw(f) == CASE f = "space" -> <<SPACE>> [] f = "spaces" -> <<SPACE, SPACE, SPACE>> [] f = "spaceTab" -> <<SPACE, TAB>>
               [] f = "tabOnly" -> <<TAB>> [] f = "none" -> <<>> [] f = "tab" -> <<TAB>> [] f = "nul" -> <<NUL>> [] f = "cr" -> <<CR>>

-----------------------------------------------------------------------------
(* Reference reading of the key section (documented grammar)                                      *)

Unesc(s, i) == i = 1 \/ s[i - 1] # BSL                     \* the byte at i is not preceded by a backslash
Pos(s, c) == {i \in 1..Len(s) : s[i] = c /\ Unesc(s, i)}
MinOf(P) == CHOOSE x \in P : \A y \in P : x <= y
RECURSIVE SplitRec(_, _, _)
SplitRec(s, start, P) == IF P = {} THEN <<SubSeq(s, start, Len(s))>>
                         ELSE LET p == MinOf(P) IN <<SubSeq(s, start, p - 1)>> \o SplitRec(s, p + 1, P \ {p})
RECURSIVE Un(_, _, _)
Un(s, i, sp) == IF i > Len(s) THEN <<>>
                ELSE IF s[i] = BSL /\ i < Len(s) /\ s[i + 1] \in sp THEN <<s[i + 1]>> \o Un(s, i + 2, sp)
                ELSE <<s[i]>> \o Un(s, i + 1, sp)
UnMeas(s) == Un(s, 1, {COMMA, SPACE})
UnTag(s)  == Un(s, 1, {COMMA, SPACE, EQ})

Reject(r) == [res |-> "reject", reason |-> r]

TagOf(p) == LET E == Pos(p, EQ) IN
  IF p = <<>> \/ (E # {} /\ MinOf(E) = 1) THEN [err |-> "missing tag key"]
  ELSE IF E = {} THEN [err |-> "missing tag value"]
  ELSE LET e == MinOf(E)  k == SubSeq(p, 1, e - 1)  v == SubSeq(p, e + 1, Len(p)) IN
       IF v = <<>> THEN [err |-> "missing tag value"]
       ELSE IF Cardinality(E) > 1 THEN [err |-> "invalid tag format"]
       ELSE [err |-> "", k |-> UnTag(k), v |-> UnTag(v)]

SortedTags(T) ==   \* T: sequence of tags with pairwise different keys
  IF T = <<>> THEN <<>> ELSE
  LET n == Len(T)
      p == CHOOSE q \in [1..n -> 1..n] : /\ \A i, j \in 1..n : i # j => q[i] # q[j]
                                         /\ \A i \in 1..n - 1 : LexLess(T[q[i]].k, T[q[i + 1]].k)
  IN [i \in 1..n |-> [k |-> T[p[i]].k, v |-> T[p[i]].v]]

\* key: raw bytes up to the first unescaped space of the line
RefKey(key) ==
  LET parts == SplitRec(key, 1, Pos(key, COMMA))
      tp == [i \in 1..Len(parts) - 1 |-> TagOf(parts[i + 1])]
      bad == {i \in 1..Len(tp) : tp[i].err # ""}
  IN IF parts[1] = <<>> THEN Reject("missing measurement")
     ELSE IF bad # {} THEN Reject(tp[MinOf(bad)].err)
     ELSE IF \E i, j \in 1..Len(tp) : i # j /\ tp[i].k = tp[j].k THEN Reject("duplicate tags")
     ELSE [res |-> "ok", meas |-> UnMeas(parts[1]), tags |-> SortedTags(tp)]

-----------------------------------------------------------------------------
(* The generator                                                                                   *)

VARIABLES ph, lead, mf, pad, tg, s1, fl, ts, pr, s2, tl, w
vars == <<ph, lead, mf, pad, tg, s1, fl, ts, pr, s2, tl, w>>

Cost(b) == IF b THEN 0 ELSE 1
Fits(c) == w + c <= MaxWeird

Init == /\ ph = "lead" /\ lead = "none" /\ mf = "plain" /\ pad = "none" /\ tg = <<>> /\ s1 = "space" /\ fl = <<>>
        /\ ts = TsF("absent", 0, TRUE) /\ pr = "n" /\ s2 = "space" /\ tl = "none" /\ w = 0

Lead(f) == /\ ph = "lead" /\ Fits(Cost(f = "none")) /\ lead' = f /\ w' = w + Cost(f = "none") /\ ph' = "meas"
           /\ UNCHANGED <<mf, pad, tg, s1, fl, ts, pr, s2, tl>>
Meas(f, p) == /\ ph = "meas" /\ (p # "none" => f = "plain")
              /\ LET c == Cost(f = "plain") + Cost(p = "none") IN Fits(c) /\ w' = w + c
              /\ mf' = f /\ pad' = p /\ ph' = "tags" /\ UNCHANGED <<lead, tg, s1, fl, ts, pr, s2, tl>>
\* a tag: id = which key (1..3), key form, value form.  Default: the next unused id with plain forms (sorted input)
Tag(id, kf, vf) == /\ ph = "tags" /\ Len(tg) < MaxTags
                   /\ (kf = "noEq" => vf = "plain")
                   /\ LET c == Cost(id = Len(tg) + 1) + Cost(kf = "plain") + Cost(vf = "plain") IN Fits(c) /\ w' = w + c
                   /\ tg' = Append(tg, [id |-> id, kf |-> kf, vf |-> vf])
                   /\ UNCHANGED <<ph, lead, mf, pad, s1, fl, ts, pr, s2, tl>>
EndTags(f) == /\ ph = "tags" /\ Fits(Cost(f = "space")) /\ w' = w + Cost(f = "space") /\ s1' = f /\ ph' = "fields"
              /\ UNCHANGED <<lead, mf, pad, tg, fl, ts, pr, s2, tl>>
\* a field: id = which key, key form, value = [k |-> "num", n |-> Num] | [k |-> "str", f |-> form]
FieldVals == {[k |-> "num", n |-> n] : n \in NumForms} \cup {[k |-> "str", f |-> f] : f \in StrForms}
\* a string that is not closed swallows what follows up to the next quote: after such a field only unquoted
\* values are generated (two of them would close each other and form ONE well-formed string - another line of
\* the grammar, not the composition of two malformed fields)
IsUnbal(v) == v.k = "str" /\ ~StrMeaning(v.f).ok /\ StrMeaning(v.f).reason = "unbalanced quotes"
Field(id, kf, v) == /\ ph = "fields" /\ Len(fl) < MaxFields
                    /\ (kf = "noEq" => v = [k |-> "num", n |-> DefaultNum])
                    /\ ((\E i \in 1..Len(fl) : IsUnbal(fl[i].v)) => (v.k = "num" /\ kf # "quote"))
                    /\ LET c == Cost(id = Len(fl) + 1) + Cost(kf = "plain") + Cost(v = [k |-> "num", n |-> DefaultNum])
                       IN Fits(c) /\ w' = w + c
                    /\ fl' = Append(fl, [id |-> id, kf |-> kf, v |-> v])
                    /\ UNCHANGED <<ph, lead, mf, pad, tg, s1, ts, pr, s2, tl>>
EndFields == /\ ph = "fields" /\ Fits(Cost(fl # <<>>)) /\ w' = w + Cost(fl # <<>>) /\ ph' = "ts"
             /\ UNCHANGED <<lead, mf, pad, tg, s1, fl, ts, pr, s2, tl>>
Ts(t, p, sep, tail) == /\ ph = "ts"
                       /\ (t.base = "absent" => sep = "space")
                       \* timestamp and precision are one element: any (form, precision) other than (absent, n) costs 1,
                       \* so that every timestamp form meets every precision within a budget of one
                       /\ LET c == Cost(t.base = "absent" /\ p = "n") + Cost(sep = "space") + Cost(tail = "none")
                          IN Fits(c) /\ w' = w + c
                       /\ ts' = t /\ pr' = p /\ s2' = sep /\ tl' = tail /\ ph' = "done"
                       /\ UNCHANGED <<lead, mf, pad, tg, s1, fl>>

\* when the budget of non-default choices is used up only the default choice of each element is enumerated
Full == w < MaxWeird
TsDefault == TsF("absent", 0, TRUE)
Next == \/ ph = "lead" /\ \E f \in (IF Full THEN LeadForms ELSE {"none"}) : Lead(f)
        \/ ph = "meas" /\ \E f \in (IF Full THEN MeasForms ELSE {"plain"}), p \in (IF Full THEN Pads ELSE {"none"}) : Meas(f, p)
        \/ ph = "tags" /\ \E id \in (IF Full THEN 1..3 ELSE {Len(tg) + 1}), kf \in (IF Full THEN TagKeyForms ELSE {"plain"}),
                               vf \in (IF Full THEN TagValForms ELSE {"plain"}) : Tag(id, kf, vf)
        \/ ph = "tags" /\ \E f \in (IF Full THEN Sep1Forms ELSE {"space"}) : EndTags(f)
        \/ ph = "fields" /\ \E id \in (IF Full THEN 1..3 ELSE {Len(fl) + 1}), kf \in (IF Full THEN FieldKeyForms ELSE {"plain"}),
                                 v \in (IF Full THEN FieldVals ELSE {[k |-> "num", n |-> DefaultNum]}) : Field(id, kf, v)
        \/ EndFields
        \/ ph = "ts" /\ \E t \in (IF Full THEN (IF Rich THEN TsFormsRich ELSE TsFormsCore) ELSE {TsDefault}),
                             p \in (IF Full THEN Precisions ELSE {"n"}), sep \in (IF Full THEN Sep2Forms ELSE {"space"}),
                             tail \in (IF Full THEN TailForms ELSE {"none"}) : Ts(t, p, sep, tail)
Spec == Init /\ [][Next]_vars

-----------------------------------------------------------------------------
(* Raw text and meaning of a finished line                                                         *)

RECURSIVE Cat(_)
Cat(ss) == IF ss = <<>> THEN <<>> ELSE Head(ss) \o Cat(Tail(ss))

TagRaw(t) == IF t.kf = "noEq" THEN TagKeyRaw(t.kf, t.id)
             ELSE TagKeyRaw(t.kf, t.id) \o <<EQ>> \o TagValRaw(t.vf, t.id)
KeyRaw == MeasRaw(mf) \o Cat([i \in 1..Len(tg) |-> <<COMMA>> \o TagRaw(tg[i])])

\* The key ends at the first unescaped space.  If the generated key text ends with a backslash, the first space
\* of the separator is escaped by it: the key then continues into the field text unless the separator has a
\* second space (then the escaped space is the last byte of the key).
KeyEndsBsl == KeyRaw # <<>> /\ KeyRaw[Len(KeyRaw)] = BSL
Sep1Raw == SepRaw(s1)
EffKey == IF ~KeyEndsBsl THEN KeyRaw
          ELSE IF s1 = "spaces" THEN KeyRaw \o <<SPACE>> ELSE <<>>        \* <<>>: separator swallowed

FieldKeyMeaning(f) == IF f.kf \in {"empty", "noEq"} THEN <<>> ELSE UnTag(FieldKeyRaw(f.kf, f.id))
FieldMeaning(f) ==
  IF f.kf = "empty" THEN [ok |-> FALSE, reason |-> "missing field key"]
  ELSE IF f.kf = "noEq" THEN [ok |-> FALSE, reason |-> "invalid field format"]
  ELSE IF f.v.k = "num" THEN
         IF f.v.n.ok THEN [ok |-> TRUE, name |-> FieldKeyMeaning(f), type |-> f.v.n.ty, num |-> f.v.n.val]
         ELSE [ok |-> FALSE, reason |-> IF f.v.n.txt = "" THEN "missing field value" ELSE "invalid " \o f.v.n.ty]
  ELSE LET m == StrMeaning(f.v.f) IN
         IF m.ok THEN [ok |-> TRUE, name |-> FieldKeyMeaning(f), type |-> "string", str |-> m.val]
         ELSE [ok |-> FALSE, reason |-> m.reason]

FM == [i \in 1..Len(fl) |-> FieldMeaning(fl[i])]
BadFields == {i \in 1..Len(fl) : ~FM[i].ok}

\* a string that is not closed swallows the rest of the request (quoted strings may contain newlines); the
\* harness therefore puts such a line last in a request.
Swallows == \E i \in 1..Len(fl) : fl[i].v.k = "str" /\ ~StrMeaning(fl[i].v.f).ok /\ StrMeaning(fl[i].v.f).reason = "unbalanced quotes"

TimeMeaning == IF ts.base = "absent" THEN [kind |-> "default", prec |-> pr]
               ELSE [kind |-> "sym", base |-> ts.base, off |-> ts.off, prec |-> pr]

Meaning ==
  IF mf = "hash" THEN [res |-> "skip"]
  ELSE IF mf = "empty" /\ tg = <<>> /\ fl = <<>> /\ ts.base = "absent" THEN          \* blank line
       (IF tl = "cr" THEN Reject("carriage return") ELSE [res |-> "skip"])
  ELSE IF s1 = "tabOnly" THEN Reject("missing fields")            \* (cal) a tab does not end the key
  ELSE IF KeyEndsBsl /\ EffKey = <<>> THEN Reject("missing fields")
  ELSE LET k == RefKey(EffKey) IN
    IF k.res = "reject" THEN k
    ELSE IF pad = "overLimit" THEN Reject("max key length exceeded")
    ELSE IF fl = <<>> THEN Reject("missing fields")
    ELSE IF BadFields # {} THEN Reject(FM[MinOf(BadFields)].reason)
    ELSE IF tl = "cr" THEN Reject("carriage return")             \* (cal) CR is not part of the line ending
    ELSE IF tl = "tab" THEN Reject("trailing tab")                \* (cal) a tab is not trailing white space
    ELSE IF ts.base # "absent" /\ ~TsOk(ts, pr) THEN Reject("bad timestamp")
    ELSE [res |-> "ok", meas |-> k.meas, tags |-> k.tags,
          fields |-> [i \in 1..Len(fl) |-> FM[i]], time |-> TimeMeaning]

\* no backslash in front of a structural byte of the key: the generated tag segments are the tags of the meaning
NoTrailBsl == mf # "trailBsl" /\ \A i \in 1..Len(tg) : tg[i].kf # "trailBsl" /\ tg[i].vf # "trailBsl"

\* what the harness needs to render the line: parts are byte sequences or literal text
FieldOut(f) == [key |-> FieldKeyRaw(f.kf, f.id), noeq |-> (f.kf = "noEq"),
                txt |-> IF f.v.k = "num" THEN f.v.n.txt ELSE "", raw |-> IF f.v.k = "str" THEN StrRaw(f.v.f) ELSE <<>>,
                isstr |-> (f.v.k = "str")]
LineOf(m) == [ lead |-> SepRaw(lead), meas |-> MeasRaw(mf), tags |-> [i \in 1..Len(tg) |-> TagRaw(tg[i])], pad |-> pad, sep1 |-> Sep1Raw,
          fields |-> [i \in 1..Len(fl) |-> FieldOut(fl[i])],
          ts |-> [base |-> ts.base, off |-> ts.off], prec |-> pr, sep2 |-> SepRaw(s2), tail |-> SepRaw(tl),
          swallows |-> Swallows, permutable |-> NoTrailBsl, w |-> w,
          form |-> [lead |-> lead, meas |-> mf, tags |-> [i \in 1..Len(tg) |-> <<tg[i].id, tg[i].kf, tg[i].vf>>],
                    sep1 |-> s1, fields |-> [i \in 1..Len(fl) |-> <<fl[i].id, fl[i].kf, IF fl[i].v.k = "num" THEN fl[i].v.n.txt ELSE fl[i].v.f>>],
                    sep2 |-> s2, tail |-> tl],
          expect |-> m ]
Line == LineOf(Meaning)

Emit == (ph = "done") => PrintT(<<"BEHAVIOUR", ToJson(Line)>>)

-----------------------------------------------------------------------------
(* Invariants of the model (checked on every finished line)                                        *)

TypeOK == /\ ph \in {"lead", "meas", "tags", "fields", "ts", "done"} /\ w \in 0..MaxWeird
          /\ Len(tg) <= MaxTags /\ Len(fl) <= MaxFields

Reasons == {"missing measurement", "missing tag key", "missing tag value", "invalid tag format", "duplicate tags",
            "max key length exceeded", "missing fields", "missing field key", "missing field value", "invalid field format",
            "invalid float", "invalid integer", "invalid unsigned", "invalid boolean", "unbalanced quotes", "junk after string",
            "carriage return", "trailing tab", "bad timestamp"}

\* accepted lines carry their tags in strictly increasing key order (hence without duplicates)
CanonicalTagOrder(m) == (m.res = "ok") => \A i \in 1..Len(m.tags) - 1 : LexLess(m.tags[i].k, m.tags[i + 1].k)
\* every tag of the text is in the meaning exactly once
TagSetPreserved(m) == (m.res = "ok" /\ NoTrailBsl) => Len(m.tags) = Len(tg)
\* every field has a non-empty name, a type and a value
FieldsTyped(m) == (m.res = "ok") =>
   \A i \in 1..Len(m.fields) : m.fields[i].name # <<>> /\ m.fields[i].type \in {"float", "integer", "unsigned", "boolean", "string"}
RejectReasons(m) == (m.res = "reject") => m.reason \in Reasons

C12_CanonicalTagOrder == (ph = "done") => CanonicalTagOrder(Meaning)
C12_TagSetPreserved == (ph = "done") => TagSetPreserved(Meaning)
C12_FieldsTyped == (ph = "done") => FieldsTyped(Meaning)
C12_RejectReasons == (ph = "done") => RejectReasons(Meaning)

\* the same four invariants and the print in one formula, so that the meaning of a line is computed once
\* (used by the generation configs; a failing conjunct is named by its Assert)
EmitChecked == (ph = "done") =>
  LET m == Meaning IN
    /\ Assert(CanonicalTagOrder(m), "C12_CanonicalTagOrder violated")
    /\ Assert(TagSetPreserved(m), "C12_TagSetPreserved violated")
    /\ Assert(FieldsTyped(m), "C12_FieldsTyped violated")
    /\ Assert(RejectReasons(m), "C12_RejectReasons violated")
    /\ PrintT(<<"BEHAVIOUR", ToJson(LineOf(m))>>)
=============================================================================
