-------------------------- MODULE VisibilityTrace --------------------------
(* Validates recorded executions of the real shard (harness/tsdb/zz_verif_conc_test.go) against Visibility. *)
EXTENDS Visibility, Json

VARIABLE l
Trace == ndJsonDeserialize("trace.ndjson")
tvars == <<vars, l>>
Ev == Trace[l]
Is(e) == l <= Len(Trace) /\ Trace[l].e = e

TReset == /\ Is("reset") /\ started' = [s \in Series |-> 0] /\ acked' = [s \in Series |-> 0]
          /\ rd' = [r \in Readers |-> NoRead] /\ got' = [s |-> "none", m |-> 0, lo |-> 0, hi |-> 0]
TWriteStart == Is("write.start") /\ Ev.k = started[Ev.s] + 1 /\ WriteStart(Ev.s)
TWriteAck == Is("write.ack") /\ Ev.k = acked[Ev.s] + 1 /\ WriteAck(Ev.s)
TReadStart == Is("read.start") /\ ReadStart(Ev.r, Ev.s)
\* contiguous = the harness saw exactly the points 1..m with the values written
TReadEnd == Is("read.end") /\ Ev.contiguous /\ rd[Ev.r].s = Ev.s /\ ReadEnd(Ev.r, Ev.m)

TraceInit == Init /\ l = 1 /\ TLCSet(1, 1)
TraceNext == /\ (TReset \/ TWriteStart \/ TWriteAck \/ TReadStart \/ TReadEnd)
             /\ l' = l + 1 /\ TLCSet(1, IF l' > TLCGet(1) THEN l' ELSE TLCGet(1))
TraceSpec == TraceInit /\ [][TraceNext]_tvars
TraceAccepted == /\ PrintT(<<"HWM", TLCGet(1) - 1, Len(Trace)>>) /\ TLCGet(1) - 1 = Len(Trace)
=============================================================================
