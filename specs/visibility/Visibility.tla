----------------------------- MODULE Visibility -----------------------------
(* C19, read-visibility clause.  Each series s is written by one writer with points 1, 2, 3, ... (point k *)
(* at timestamp k), one WritePoints call per point; reads of a series run concurrently with the writers,  *)
(* cache snapshots, compactions and deletes of other series.  A read that began after point k was          *)
(* acknowledged must contain 1..k (nothing acknowledged is ever missing), and may contain at most the      *)
(* points whose write had started by the time the read ended; points are contiguous from 1.               *)
EXTENDS Integers, Sequences, FiniteSets, TLC

CONSTANTS Series, MaxK, Readers

VARIABLES started,   \* series -> number of writes begun
          acked,     \* series -> number of writes acknowledged
          rd,        \* reader -> [s, lo] of the read in progress, or NoRead
          got        \* last completed read: [s, m, lo, hi] (observation)
vars == <<started, acked, rd, got>>
NoRead == [s |-> "none", lo |-> 0]

Init == /\ started = [s \in Series |-> 0] /\ acked = [s \in Series |-> 0]
        /\ rd = [r \in Readers |-> NoRead] /\ got = [s |-> "none", m |-> 0, lo |-> 0, hi |-> 0]

WriteStart(s) == /\ started[s] = acked[s] /\ started[s] < MaxK
                 /\ started' = [started EXCEPT ![s] = @ + 1] /\ UNCHANGED <<acked, rd, got>>
WriteAck(s) == /\ acked[s] < started[s]
               /\ acked' = [acked EXCEPT ![s] = @ + 1] /\ UNCHANGED <<started, rd, got>>
ReadStart(r, s) == /\ rd[r] = NoRead
                   /\ rd' = [rd EXCEPT ![r] = [s |-> s, lo |-> acked[s]]] /\ UNCHANGED <<started, acked, got>>
\* the engine may return any m between what was acknowledged when the read began and what had been started
ReadEnd(r, m) == /\ rd[r] # NoRead /\ m \in rd[r].lo..started[rd[r].s]
                 /\ got' = [s |-> rd[r].s, m |-> m, lo |-> rd[r].lo, hi |-> started[rd[r].s]]
                 /\ rd' = [rd EXCEPT ![r] = NoRead] /\ UNCHANGED <<started, acked>>

Next == \/ \E s \in Series : WriteStart(s) \/ WriteAck(s)
        \/ \E r \in Readers, s \in Series : ReadStart(r, s)
        \/ \E r \in Readers, m \in 0..MaxK : ReadEnd(r, m)
Spec == Init /\ [][Next]_vars

TypeOK == \A s \in Series : acked[s] <= started[s] /\ started[s] <= acked[s] + 1
C19_ReadSeesAcked == got.s # "none" => got.lo <= got.m /\ got.m <= got.hi
=============================================================================
