--------------------------- MODULE SubscriberGen ---------------------------
(* Behaviour generator for the replay on the real subscriber.Service.                               *)
(*                                                                                                  *)
(* A sequential driver can decide only some steps of the real code (CONTROLLED steps):              *)
(*   Meta     change the metadata the fake MetaClient serves and close its "changed" channel         *)
(*   GetRel   let the waiter's WaitForDataChanged() call return (the fake holds every call: gate)    *)
(*   UpdRel   let the run loop's Databases() call return the current snapshot (gate) = RunUpdate     *)
(*   Arrive   put a batch into Service.Points()                                                      *)
(*   DestRet  let the destination call of one writer goroutine return nil / an error (gate)          *)
(*   Close    PointsWriter.Close + Service.Close() (started in its own goroutine)                    *)
(* Everything else happens by itself as soon as it is enabled (AUTOMATIC steps: wake-up of the       *)
(* waiter, rendezvous on s.update, a batch taken from s.points, a writer taking from its buffer,     *)
(* writers leaving, run loop closing/joining, Close returning).  The generator therefore runs the    *)
(* automatic steps to completion (canonical order) after every controlled step and offers the next   *)
(* controlled step only in such a stable state; a controlled step is refused when it would enable    *)
(* two automatic steps that do not commute in the real code:                                         *)
(*   - s.update and s.points ready at the same select (GenNoRace),                                   *)
(*   - two batches processed back to back while a writer is about to free a buffer slot (queue <= 1),*)
(*   - Close while the waiter is not parked (its select between the channel and closing is random).  *)
(* Those races are covered by the exhaustive runs of Subscriber.tla and by the stress driver.        *)
(* Every controlled step is logged with the projection of the stable state BEFORE it (pre); the      *)
(* behaviour is printed when Close has returned, with the final projection.                          *)
EXTENDS Subscriber, Json

CONSTANTS GenLen,      \* controlled steps before the wind-down (only releases and Close) starts
          MetaEvery    \* spacing of the metadata changes (controlled steps)
VARIABLES hist, nctl
gvars == <<vars, hist, nctl>>

TakeSet == {x \in CwIds \X Workers : wr[x].pc = "idle" /\ cws[x[1]].buf # <<>>}
ExitSet == {x \in CwIds \X Workers : wr[x].pc = "idle" /\ cws[x[1]].buf = <<>> /\ cws[x[1]].st = "closed"}
AutoWake == wpc = "wait" /\ gen > wch
AutoRecv == rpc = "idle" /\ wpc = "send"
AutoBatch == rpc = "idle" /\ queue # <<>>
AutoRunClose == rpc = "idle" /\ queue = <<>> /\ closedPts /\ wpc # "send"
AutoJoin == rpc = "join" /\ AllWritersGone
AutoWaiterExit == wpc = "wait" /\ closedPts /\ gen = wch
AutoCloseEnd == closedPts /\ ~closeRet /\ rpc = "done" /\ wpc = "done"
AnyAuto == AutoWake \/ AutoRecv \/ AutoBatch \/ TakeSet # {} \/ ExitSet # {} \/ AutoRunClose \/ AutoJoin
           \/ AutoWaiterExit \/ AutoCloseEnd

Auto ==     \* canonical order; the enabled automatic steps commute in every state the generator reaches
  /\ AnyAuto
  /\ IF AutoWake THEN WWake
     ELSE IF AutoRecv THEN RecvUpdate
     ELSE IF AutoBatch THEN RunBatch
     ELSE IF TakeSet # {} THEN LET x == CHOOSE y \in TakeSet : TRUE IN WTake(x[1], x[2])
     ELSE IF ExitSet # {} THEN LET x == CHOOSE y \in ExitSet : TRUE IN WExitG(x[1], x[2])
     ELSE IF AutoRunClose THEN RunClose
     ELSE IF AutoJoin THEN RunJoin
     ELSE IF AutoWaiterExit THEN WaiterExit
     ELSE CloseEnd
  /\ UNCHANGED <<hist, nctl>>

KeyRec(k) == [rp |-> k[1], name |-> k[2]]
Proj ==
  [wpc |-> wpc, rpc |-> rpc, gen |-> gen, wch |-> wch, closed |-> closedPts, closeRet |-> closeRet,
   meta |-> {[rp |-> k[1], name |-> k[2], d |-> meta[k]] : k \in {x \in Keys : meta[x] # 0}},
   subs |-> {[rp |-> k[1], name |-> k[2], inc |-> subs[k], def |-> cws[<<k, subs[k]>>].def,
              buf |-> cws[<<k, subs[k]>>].buf] : k \in {x \in Keys : subs[x] # 0}},
   calls |-> {[rp |-> x[1][1][1], name |-> x[1][1][2], inc |-> x[1][2], b |-> wr[x].b, j |-> wr[x].i]
                : x \in {y \in CwIds \X Workers : wr[y].pc = "call"}},
   cws |-> {[rp |-> c[1][1], name |-> c[1][2], inc |-> c[2], st |-> cws[c].st, def |-> cws[c].def,
             acc |-> cws[c].acc, drop |-> cws[c].drop, att |-> cws[c].att,
             exited |-> \A w \in Workers : wr[<<c, w>>].pc = "exit"] : c \in Live},
   written |-> svcWritten, fail |-> svcFail, cfail |-> createFail]

\* p = Proj of the current (stable) state, evaluated once per state in Ctl
Log(p, a, k, n, b, ok) ==
  /\ hist' = Append(hist, [a |-> a, rp |-> k[1], name |-> k[2], n |-> n, b |-> b, ok |-> ok, pre |-> p])
  /\ nctl' = nctl + 1

Wind == nctl >= GenLen
NoKey == <<"", "">>

GMeta(p, k, d) ==        \* changes are spread over the behaviour: at most one per MetaEvery controlled steps
  /\ ~Wind /\ ~closedPts /\ (wpc = "wait" => queue = <<>>) /\ changes * MetaEvery <= nctl
  /\ MetaChange(k, d) /\ Log(p, "Meta", k, d, 0, TRUE)
GGetRel(p) ==
  /\ wpc \in {"get0", "get1"} /\ (wpc = "get1" => queue = <<>>)
  /\ WGet /\ Log(p, "GetRel", NoKey, 0, 0, TRUE)
GUpdRel(p) == RunUpdate /\ Log(p, "UpdRel", NoKey, 0, 0, TRUE)
GArrive(p, r) ==
  /\ ~Wind /\ ~closedPts /\ ~pwClosed /\ wpc # "send" /\ queue = <<>>
  /\ Arrive(r) /\ Log(p, "Arrive", <<r, "">>, 0, nextB, TRUE)
GDestRet(p, c, w, ok) == (Wind => ok) /\ DestRet(c, w, ok) /\ Log(p, "DestRet", c[1], c[2], wr[<<c, w>>].b, ok)
GClose(p) ==
  /\ ~closedPts /\ wpc = "wait" /\ 2 * nctl >= GenLen
  /\ pwClosed' = TRUE /\ closedPts' = TRUE
  /\ UNCHANGED <<conf, meta, gen, changes, wpc, wch, rpc, queue, nextB, brp, subs, inc, cws, wr, seen, svcWritten, svcFail,
                 createFail, closeRet, panicked>>
  /\ Log(p, "Close", NoKey, 0, 0, TRUE)

Ctl ==
  /\ ~AnyAuto
  /\ LET p == Proj IN
     \* one random candidate per state instead of all of them: TLC's simulator computes every successor before it
     \* picks one (the sets are state dependent, otherwise TLC caches the drawn element for the whole run)
     \/ \E k \in {RandomElement({x \in Keys : nctl >= 0})}, d \in {RandomElement({x \in DefIds \cup {0} : nctl >= 0})} :
           GMeta(p, k, d)
     \/ GGetRel(p) \/ GUpdRel(p) \/ GClose(p)
     \/ \E r \in RPs : GArrive(p, r)
     \/ \E x \in {y \in CwIds \X Workers : wr[y].pc = "call"}, ok \in BOOLEAN : GDestRet(p, x[1], x[2], ok)

GInit == Init /\ hist = <<>> /\ nctl = 0
GNext == Auto \/ Ctl
GSpec == GInit /\ [][GNext]_gvars

GenNoRace == ~(wpc = "send" /\ queue # <<>>) /\ Len(queue) <= 1

Out == [w |-> wact, buf |-> bsz, dev |-> Dev,
        steps |-> hist, final |-> Proj]
Emit == /\ Assert(GenNoRace, "generator reached a state with a select race")
        /\ (closeRet => PrintT(<<"BEHAVIOUR", ToJson(Out)>>))
=============================================================================
