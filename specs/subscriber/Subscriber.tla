---------------------------- MODULE Subscriber ----------------------------
(* X02 - the subscriber service (services/subscriber/service.go): write fan-out to subscriptions.  *)
(*                                                                                                  *)
(* Threads of the real code and their steps (one action per blocking point / critical section):     *)
(*   sender   coordinator.PointsWriter.WritePointsPrivileged: non-blocking send into s.points under  *)
(*            PointsWriter.mu.RLock (Arrive); PointsWriter.Close nils the channel list (PWClose).     *)
(*   waiter   Service.waitForMetaUpdates: WaitForDataChanged() (WGet), park on the channel (wait),   *)
(*            woken by a metadata change (WWake), s.Update() = rendezvous on the unbuffered          *)
(*            s.update channel (RecvUpdate), leave on closing (WaiterExit / UpdateFail).             *)
(*   run      Service.run: updateSubs = one Databases() snapshot applied to s.subs (RunUpdate),       *)
(*            one batch taken from s.points and offered to the matching chanWriters with a           *)
(*            non-blocking send (RunBatch), s.close on a closed s.points (RunClose, RunJoin).         *)
(*   writers  W goroutines per chanWriter sharing one balancewriter: take the head of the buffer     *)
(*            (WTake), one call of a destination returns ok/fail (DestRet; a slow destination is a   *)
(*            writer that stays in pc "call"), leave when the buffer is closed and empty (WExitG).    *)
(*   owner    Service.Close: CloseBegin (close(points), close(closing)), CloseEnd (wg.Wait returned). *)
(*   meta     MetaChange(k, d): any change of the subscription metadata; like meta.Client every       *)
(*            change closes the current "changed" channel and installs a fresh one (gen + 1).         *)
(*                                                                                                  *)
(* Properties (X02...; a batch is "offered" to a chanWriter = accepted into its buffer or dropped):   *)
(*  X02a  every batch of (D,R) is offered to exactly the chanWriters that run for a subscription on   *)
(*        (D,R) when the run loop processes it, to none of another (D,R), and the running            *)
(*        chanWriters are those of the last observed metadata snapshot (X02a_OwnRPOnly,              *)
(*        X02a_OfferedOnce, X02d_SubsFollowObserved).                                                *)
(*  X02b  mode ALL: every accepted batch is attempted at every destination exactly once; mode ANY:   *)
(*        the destinations of a batch are distinct, at most one succeeds, a success ends the batch, *)
(*        without a success all were tried; with one writer goroutine (W = 1) the attempts of a      *)
(*        chanWriter walk the destination list cyclically (round robin) and follow the order in      *)
(*        which the batches were accepted (X02b_All, X02b_Any, X02b_OrderW1).                        *)
(*  X02c  the run loop never waits for a destination: RunBatch is enabled whatever the writers do;    *)
(*        a batch that does not fit the buffer is dropped and counted, an accepted batch is never    *)
(*        accepted twice, never reordered, a dropped batch is never delivered (X02c_Accounting,      *)
(*        X02c_RunNeverBlocked, X02c_Counters).                                                       *)
(*  X02d  when the service is quiescent (waiter parked on the current channel, run loop idle) the    *)
(*        running chanWriters are exactly the creatable subscriptions of the CURRENT metadata, with *)
(*        their current mode and destinations; batches processed after a subscription was observed  *)
(*        dropped are not offered to it (its chanWriter is closed; what it had accepted before is    *)
(*        still drained) (X02d_Converged, X02d_SubsFollowObserved, X02d_NoOfferAfterClose).          *)
(*  X02e  no send on a closed channel, no double close; Close returns only after every goroutine     *)
(*        of the service has left and every accepted batch was attempted, and it can always finish  *)
(*        once the destinations answer (X02e_NoPanic, X02e_ClosedMeansGone, X02e_CloseCanFinish).     *)
(*                                                                                                  *)
(* Deviations of the code as found (each repaired by a patch under patches/X02; a deviation in Dev   *)
(* switches the model back to the code as found, used as negative control and to predict the real    *)
(* code of an unpatched tree):                                                                       *)
(*  "sharedCursor"  balancewriter.i is read and advanced once per destination attempt by every       *)
(*                  writer goroutine of the subscription (W > 1: a batch goes twice to one            *)
(*                  destination and never to the other one).                                         *)
(*  "lateChannel"   waitForMetaUpdates fetches the next "changed" channel after s.Update() returned: *)
(*                  a change between the run loop's Databases() and that fetch is never observed.     *)
(*  "keepOldDef"    updateSubs keeps a running chanWriter when the subscription of that name now     *)
(*                  has another mode / other destinations (drop + create seen in one snapshot).      *)
EXTENDS Integers, Sequences, FiniteSets, TLC

CONSTANTS RPs,          \* (database, retention policy) pairs
          SubNames,     \* subscription names; a subscription key is <<rp, name>>
          DefIds,       \* indices into Catalog: definitions the metadata may hold
          Bufs,         \* values of Config.WriteBufferSize  (chosen in Init: bsz)
          Ws,           \* values of Config.WriteConcurrency (chosen in Init: wact)
          MaxBatches, MaxChanges, MaxInc,
          Dev,          \* enabled deviations
          ServerOrder   \* TRUE: Service.Close only after PointsWriter.Close (cmd/influxd/run/server.go)

Catalog == << [mode |-> "ALL", dests |-> <<1, 2>>],
              [mode |-> "ANY", dests |-> <<1, 2>>],
              [mode |-> "ALL", dests |-> <<2>>],
              [mode |-> "ANY", dests |-> <<2, 1>>],
              [mode |-> "BAD", dests |-> <<1>>] >>      \* unknown balance mode: createSubscription fails

Fixed(d) == d \notin Dev
NDests(d) == Len(Catalog[d].dests)
Mode(d) == Catalog[d].mode
Creatable(d) == Mode(d) \in {"ALL", "ANY"}
Keys == RPs \X SubNames
CwIds == Keys \X (1..MaxInc)
MaxW == CHOOSE w \in Ws : \A v \in Ws : v <= w
Workers == 1..MaxW
Batches == 1..MaxBatches
Pts(b) == b                                  \* batch b carries b points (statistics count points)

NoCw == [st |-> "none", def |-> 0, buf |-> <<>>, cur |-> 1, acc |-> <<>>, drop |-> <<>>, att |-> <<>>]
NoWr == [pc |-> "none", b |-> 0, k |-> 0, i |-> 0, err |-> FALSE]

VARIABLES meta, gen, changes,          \* metadata: Keys -> DefIds \cup {0}; generation of the changed channel
          wpc, wch,                    \* waiter: pc and the generation of the channel it holds
          rpc, queue, nextB, brp,      \* run loop pc, content of s.points, next batch id, rp of each batch
          subs, inc, cws, wr,          \* s.subs (key -> incarnation or 0), incarnations made, chanWriters, writer goroutines
          seen,                        \* ghost: the snapshot the last updateSubs worked from
          svcWritten, svcFail, createFail,
          pwClosed, closedPts, closeRet, panicked,
          wact, bsz                    \* the configuration of this service: write-concurrency, write-buffer-size

conf == <<wact, bsz>>
vars == <<conf, meta, gen, changes, wpc, wch, rpc, queue, nextB, brp, subs, inc, cws, wr, seen,
          svcWritten, svcFail, createFail, pwClosed, closedPts, closeRet, panicked>>

Init ==
  /\ meta \in [Keys -> DefIds \cup {0}] /\ gen = 0 /\ changes = 0
  \* repaired: Open() fetches the first channel before it starts the goroutines (before the initial updateSubs)
  /\ wpc = (IF Fixed("lateChannel") THEN "wait" ELSE "get0") /\ wch = (IF Fixed("lateChannel") THEN 0 ELSE -1)
  /\ rpc = "init" /\ queue = <<>> /\ nextB = 1 /\ brp = [b \in Batches |-> CHOOSE r \in RPs : TRUE]
  /\ subs = [k \in Keys |-> 0] /\ inc = [k \in Keys |-> 0]
  /\ cws = [c \in CwIds |-> NoCw] /\ wr = [x \in CwIds \X Workers |-> NoWr]
  /\ seen = [k \in Keys |-> 0]
  /\ svcWritten = 0 /\ svcFail = 0 /\ createFail = 0
  /\ pwClosed = FALSE /\ closedPts = FALSE /\ closeRet = FALSE /\ panicked = FALSE
  /\ wact \in Ws /\ bsz \in Bufs

-----------------------------------------------------------------------------
(* metadata *)
MetaChange(k, d) ==
  /\ changes < MaxChanges /\ d # meta[k] /\ ~closeRet
  /\ meta' = [meta EXCEPT ![k] = d] /\ gen' = gen + 1 /\ changes' = changes + 1
  /\ UNCHANGED <<conf, wpc, wch, rpc, queue, nextB, brp, subs, inc, cws, wr, seen, svcWritten, svcFail, createFail,
                 pwClosed, closedPts, closeRet, panicked>>

-----------------------------------------------------------------------------
(* waiter.  code as found:  for { ch := Get(); select { <-ch: Update()  |  <-closing: return } }          *)
(*          repaired:       ch := Get() in Open(); for { select { <-ch: ch = Get(); Update()  |  <-closing: return } } *)
WQuiet == UNCHANGED <<conf, meta, gen, changes, rpc, queue, nextB, brp, subs, inc, cws, wr, seen, svcWritten, svcFail,
                      createFail, pwClosed, closedPts, closeRet, panicked>>
WGet ==
  /\ wpc \in {"get0", "get1"}
  /\ wch' = gen /\ wpc' = IF wpc = "get0" THEN "wait" ELSE "send"
  /\ WQuiet
WWake ==
  /\ wpc = "wait" /\ gen > wch
  /\ wpc' = IF Fixed("lateChannel") THEN "get1" ELSE "send"
  /\ UNCHANGED wch /\ WQuiet
UpdateFail ==                \* s.Update() returns "service closed"; the loop comes round once more
  /\ wpc = "send" /\ closedPts
  /\ wpc' = IF Fixed("lateChannel") THEN "wait" ELSE "get0"
  /\ UNCHANGED wch /\ WQuiet
WaiterExit ==
  /\ wpc = "wait" /\ closedPts
  /\ wpc' = "done" /\ UNCHANGED wch /\ WQuiet

-----------------------------------------------------------------------------
(* run loop *)
RecvUpdate ==
  /\ rpc = "idle" /\ wpc = "send"
  /\ rpc' = "upd" /\ wpc' = IF Fixed("lateChannel") THEN "wait" ELSE "get0"
  /\ UNCHANGED <<conf, meta, gen, changes, wch, queue, nextB, brp, subs, inc, cws, wr, seen, svcWritten, svcFail, createFail,
                 pwClosed, closedPts, closeRet, panicked>>

Keep(k) == subs[k] # 0 /\ meta[k] # 0 /\ (cws[<<k, subs[k]>>].def = meta[k] \/ ~Fixed("keepOldDef"))
CloseOld(k) == subs[k] # 0 /\ ~Keep(k)
WantNew(k) == meta[k] # 0 /\ ~Keep(k)
Create(k) == WantNew(k) /\ Creatable(meta[k])
CreateFails(k) == WantNew(k) /\ ~Creatable(meta[k])

RunUpdate ==                 \* updateSubs: one Databases() snapshot, new chanWriters started, vanished ones closed
  /\ rpc \in {"init", "upd"}
  /\ \A k \in Keys : Create(k) => inc[k] < MaxInc
  /\ rpc' = "idle" /\ seen' = meta
  /\ cws' = [c \in CwIds |->
               IF CloseOld(c[1]) /\ c[2] = subs[c[1]] THEN [cws[c] EXCEPT !.st = "closed"]
               ELSE IF Create(c[1]) /\ c[2] = inc[c[1]] + 1 THEN [NoCw EXCEPT !.st = "open", !.def = meta[c[1]]]
               ELSE cws[c]]
  /\ wr' = [x \in CwIds \X Workers |->
               IF Create(x[1][1]) /\ x[1][2] = inc[x[1][1]] + 1
               THEN [NoWr EXCEPT !.pc = IF x[2] <= wact THEN "idle" ELSE "exit"]   \* only wact goroutines are started
               ELSE wr[x]]
  /\ subs' = [k \in Keys |-> IF Create(k) THEN inc[k] + 1 ELSE IF CloseOld(k) THEN 0 ELSE subs[k]]
  /\ inc' = [k \in Keys |-> IF Create(k) THEN inc[k] + 1 ELSE inc[k]]
  /\ createFail' = createFail + Cardinality({k \in Keys : CreateFails(k)})
  /\ UNCHANGED <<conf, meta, gen, changes, wpc, wch, queue, nextB, brp, svcWritten, svcFail, pwClosed, closedPts, closeRet, panicked>>

Targets(b) == {k \in Keys : subs[k] # 0 /\ k[1] = brp[b]}
Full(c) == Len(cws[c].buf) >= bsz

RunBatch ==                  \* one batch from s.points: non-blocking send to every matching chanWriter
  /\ rpc = "idle" /\ queue # <<>>
  /\ LET b == queue[1] T == Targets(b) IN
     /\ queue' = SubSeq(queue, 2, Len(queue))
     /\ cws' = [c \in CwIds |->
                  IF c[1] \in T /\ c[2] = subs[c[1]]
                  THEN IF Full(c) THEN [cws[c] EXCEPT !.drop = Append(@, b)]
                       ELSE [cws[c] EXCEPT !.buf = Append(@, b), !.acc = Append(@, b)]
                  ELSE cws[c]]
     /\ svcFail' = svcFail + Cardinality({k \in T : Full(<<k, subs[k]>>)})
     /\ panicked' = (panicked \/ \E k \in T : cws[<<k, subs[k]>>].st # "open")   \* send on a closed channel
  /\ UNCHANGED <<conf, meta, gen, changes, wpc, wch, rpc, nextB, brp, subs, inc, wr, seen, svcWritten, createFail,
                 pwClosed, closedPts, closeRet>>

RunClose ==                  \* s.points closed and drained: close every chanWriter, then wait for the writers
  /\ rpc = "idle" /\ queue = <<>> /\ closedPts
  /\ rpc' = "join"
  /\ cws' = [c \in CwIds |-> IF subs[c[1]] = c[2] THEN [cws[c] EXCEPT !.st = "closed"] ELSE cws[c]]
  /\ panicked' = (panicked \/ \E k \in Keys : subs[k] # 0 /\ cws[<<k, subs[k]>>].st # "open")  \* double close
  /\ subs' = [k \in Keys |-> 0]
  /\ UNCHANGED <<conf, meta, gen, changes, wpc, wch, queue, nextB, brp, inc, wr, seen, svcWritten, svcFail, createFail,
                 pwClosed, closedPts, closeRet>>

AllWritersGone == \A x \in CwIds \X Workers : wr[x].pc \in {"none", "exit"}

RunJoin ==
  /\ rpc = "join" /\ AllWritersGone
  /\ rpc' = "done"
  /\ UNCHANGED <<conf, meta, gen, changes, wpc, wch, queue, nextB, brp, subs, inc, cws, wr, seen, svcWritten, svcFail,
                 createFail, pwClosed, closedPts, closeRet, panicked>>

-----------------------------------------------------------------------------
(* writer goroutines: chanWriter.Run + balancewriter.WritePoints *)
NextIdx(i, n) == (i % n) + 1
PrivateAll(c) == Mode(cws[c].def) = "ALL" /\ Fixed("sharedCursor")   \* repaired: ALL walks 1..n without the cursor

WQuietW == UNCHANGED <<conf, meta, gen, changes, wpc, wch, rpc, queue, nextB, brp, subs, inc, seen, createFail,
                       pwClosed, closedPts, closeRet, panicked>>
WTake(c, w) ==
  /\ wr[<<c, w>>].pc = "idle" /\ cws[c].buf # <<>>
  /\ LET n == NDests(cws[c].def)
         i == IF PrivateAll(c) THEN 1 ELSE cws[c].cur IN
     /\ wr' = [wr EXCEPT ![<<c, w>>] = [pc |-> "call", b |-> cws[c].buf[1], k |-> 1, i |-> i, err |-> FALSE]]
     /\ cws' = [cws EXCEPT ![c].buf = SubSeq(@, 2, Len(@)),
                           ![c].cur = IF PrivateAll(c) THEN @ ELSE NextIdx(i, n)]
  /\ UNCHANGED <<svcWritten, svcFail>> /\ WQuietW

DestRet(c, w, ok) ==         \* the destination called by writer w answers (nil / error)
  /\ wr[<<c, w>>].pc = "call"
  /\ LET r == wr[<<c, w>>]
         n == NDests(cws[c].def)
         err2 == r.err \/ ~ok
         fin == (ok /\ Mode(cws[c].def) = "ANY") \/ r.k = n
         \* next index: repaired code continues from its own position, the code as found re-reads the shared cursor
         i2 == IF Fixed("sharedCursor") THEN NextIdx(r.i, n) ELSE cws[c].cur IN
     /\ cws' = [cws EXCEPT ![c].att = Append(@, [j |-> r.i, b |-> r.b, ok |-> ok]),
                           ![c].cur = IF fin \/ PrivateAll(c) THEN @ ELSE NextIdx(i2, n)]
     /\ wr' = [wr EXCEPT ![<<c, w>>] = IF fin THEN [NoWr EXCEPT !.pc = "idle"]
                                       ELSE [r EXCEPT !.k = r.k + 1, !.i = i2, !.err = err2]]
     \* chanWriter.Run: WritePoints returned lastErr (ANY: also when a later destination succeeded)
     /\ svcWritten' = IF fin /\ ~err2 THEN svcWritten + Pts(r.b) ELSE svcWritten
     /\ svcFail' = IF fin /\ err2 THEN svcFail + 1 ELSE svcFail
  /\ WQuietW

WExitG(c, w) ==
  /\ wr[<<c, w>>].pc = "idle" /\ cws[c].buf = <<>> /\ cws[c].st = "closed"
  /\ wr' = [wr EXCEPT ![<<c, w>>].pc = "exit"]
  /\ UNCHANGED <<cws, svcWritten, svcFail>> /\ WQuietW

-----------------------------------------------------------------------------
(* sender and owner *)
Arrive(r) ==
  /\ nextB <= MaxBatches /\ ~pwClosed /\ Len(queue) < 100
  /\ brp' = [brp EXCEPT ![nextB] = r] /\ nextB' = nextB + 1
  /\ IF closedPts THEN panicked' = TRUE /\ UNCHANGED queue           \* send on closed channel
                  ELSE queue' = Append(queue, nextB) /\ UNCHANGED panicked
  /\ UNCHANGED <<conf, meta, gen, changes, wpc, wch, rpc, subs, inc, cws, wr, seen, svcWritten, svcFail, createFail,
                 pwClosed, closedPts, closeRet>>
PWClose ==
  /\ ~pwClosed /\ pwClosed' = TRUE
  /\ UNCHANGED <<conf, meta, gen, changes, wpc, wch, rpc, queue, nextB, brp, subs, inc, cws, wr, seen, svcWritten, svcFail,
                 createFail, closedPts, closeRet, panicked>>
CloseBegin ==
  /\ ~closedPts /\ (ServerOrder => pwClosed)
  /\ closedPts' = TRUE
  /\ UNCHANGED <<conf, meta, gen, changes, wpc, wch, rpc, queue, nextB, brp, subs, inc, cws, wr, seen, svcWritten, svcFail,
                 createFail, pwClosed, closeRet, panicked>>
CloseEnd ==
  /\ closedPts /\ ~closeRet /\ rpc = "done" /\ wpc = "done"
  /\ closeRet' = TRUE
  /\ UNCHANGED <<conf, meta, gen, changes, wpc, wch, rpc, queue, nextB, brp, subs, inc, cws, wr, seen, svcWritten, svcFail,
                 createFail, pwClosed, closedPts, panicked>>

ServiceStep ==
  \/ WGet \/ WWake \/ UpdateFail \/ WaiterExit \/ RecvUpdate \/ RunUpdate \/ RunBatch \/ RunClose \/ RunJoin \/ CloseEnd
  \/ \E c \in CwIds, w \in Workers : WTake(c, w) \/ WExitG(c, w) \/ \E ok \in BOOLEAN : DestRet(c, w, ok)
Next ==
  \/ ServiceStep
  \/ \E k \in Keys, d \in DefIds \cup {0} : MetaChange(k, d)
  \/ \E r \in RPs : Arrive(r)
  \/ PWClose \/ CloseBegin

Spec == Init /\ [][Next]_vars

Bounded == \A k \in Keys : inc[k] <= MaxInc

-----------------------------------------------------------------------------
(* invariants *)
SeqToSet(s) == {s[i] : i \in 1..Len(s)}
Increasing(s) == \A i, j \in 1..Len(s) : i < j => s[i] < s[j]
Live == {c \in CwIds : cws[c].st # "none"}
InCall(c, b) == \E w \in Workers : wr[<<c, w>>].pc = "call" /\ wr[<<c, w>>].b = b
Completed(c, b) == b \in SeqToSet(cws[c].acc) /\ b \notin SeqToSet(cws[c].buf) /\ ~InCall(c, b)
Atts(c, b) == {t \in 1..Len(cws[c].att) : cws[c].att[t].b = b}

TypeOK ==
  /\ meta \in [Keys -> DefIds \cup {0}] /\ gen \in Nat /\ wch \in -1..gen
  /\ wpc \in {"get0", "get1", "wait", "send", "done"}
  /\ rpc \in {"init", "upd", "idle", "join", "done"}
  /\ subs \in [Keys -> 0..MaxInc] /\ inc \in [Keys -> 0..MaxInc]
  /\ \A c \in CwIds : cws[c].st \in {"none", "open", "closed"} /\ (cws[c].st = "none") = (c[2] > inc[c[1]])
  /\ \A x \in CwIds \X Workers : wr[x].pc \in {"none", "idle", "call", "exit"} /\ (wr[x].pc = "none") = (cws[x[1]].st = "none")

X02a_OwnRPOnly == \A c \in Live : \A b \in SeqToSet(cws[c].acc) \cup SeqToSet(cws[c].drop) : brp[b] = c[1][1]
X02a_OfferedOnce ==            \* per subscription key a batch is offered to at most one incarnation, at most once
  \A k \in Keys, b \in Batches :
    Cardinality({<<n, x>> \in (1..MaxInc) \X {"a", "d"} :
                   cws[<<k, n>>].st # "none" /\ \E t \in 1..Len(IF x = "a" THEN cws[<<k, n>>].acc ELSE cws[<<k, n>>].drop) :
                      (IF x = "a" THEN cws[<<k, n>>].acc ELSE cws[<<k, n>>].drop)[t] = b}) <= 1

X02b_All ==
  \A c \in Live : Mode(cws[c].def) = "ALL" =>
    \A b \in SeqToSet(cws[c].acc), j \in 1..NDests(cws[c].def) :
       LET hits == {t \in Atts(c, b) : cws[c].att[t].j = j} IN
       /\ Cardinality(hits) <= 1
       /\ Completed(c, b) => Cardinality(hits) = 1
X02b_Any ==
  \A c \in Live : Mode(cws[c].def) = "ANY" =>
    \A b \in SeqToSet(cws[c].acc) :
       LET A == Atts(c, b) oks == {t \in A : cws[c].att[t].ok} IN
       /\ \A t, u \in A : t # u => cws[c].att[t].j # cws[c].att[u].j
       /\ Cardinality(oks) <= 1
       /\ \A t \in oks, u \in A : u <= t
       /\ Completed(c, b) => (Cardinality(oks) = 1 \/ Cardinality(A) = NDests(cws[c].def))
X02b_OrderW1 ==
  wact = 1 => \A c \in Live :
    LET a == cws[c].att n == NDests(cws[c].def) IN
    /\ \A t \in 1..Len(a) : a[t].j = ((t - 1) % n) + 1            \* round robin over the destination list
    /\ \A t, u \in 1..Len(a) : t < u => a[t].b <= a[u].b
    \* the batches attempted are a prefix of the accepted ones
    /\ \A t \in 1..Len(a) : \E p \in 1..Len(cws[c].acc) :
          cws[c].acc[p] = a[t].b /\ \A q \in 1..(p - 1) : Completed(c, cws[c].acc[q])

X02c_Accounting ==
  \A c \in Live :
    /\ Increasing(cws[c].acc) /\ Increasing(cws[c].drop)
    /\ SeqToSet(cws[c].acc) \cap SeqToSet(cws[c].drop) = {}
    /\ Len(cws[c].buf) <= bsz
    /\ \A t \in 1..Len(cws[c].att) : cws[c].att[t].b \in SeqToSet(cws[c].acc)
    /\ \A w \in Workers : wr[<<c, w>>].pc = "call" => wr[<<c, w>>].b \in SeqToSet(cws[c].acc)
X02c_RunNeverBlocked == (rpc = "idle" /\ queue # <<>>) => ENABLED RunBatch
Errored(c, b) == Completed(c, b) /\ \E t \in Atts(c, b) : ~cws[c].att[t].ok
X02c_Counters ==
  svcFail = Cardinality({x \in Live \X Batches : x[2] \in SeqToSet(cws[x[1]].drop)})
            + Cardinality({x \in Live \X Batches : Errored(x[1], x[2])})
SumPts(S) == LET RECURSIVE Sum(_)
                 Sum(T) == IF T = {} THEN 0 ELSE LET x == CHOOSE y \in T : TRUE IN Pts(x[2]) + Sum(T \ {x})
             IN Sum(S)
X02c_Written ==
  svcWritten = SumPts({x \in Live \X Batches : Completed(x[1], x[2]) /\ ~Errored(x[1], x[2])})

Quiescent == wpc = "wait" /\ wch = gen /\ rpc = "idle" /\ ~closedPts
X02d_Converged ==
  Quiescent => \A k \in Keys :
    /\ (subs[k] # 0) = (meta[k] # 0 /\ Creatable(meta[k]))
    /\ subs[k] # 0 => cws[<<k, subs[k]>>].def = meta[k]
X02d_SubsFollowObserved ==
  rpc \in {"idle", "upd"} => \A k \in Keys :
    /\ (subs[k] # 0) = (seen[k] # 0 /\ Creatable(seen[k]))
    /\ subs[k] # 0 => cws[<<k, subs[k]>>].def = seen[k] /\ cws[<<k, subs[k]>>].st = "open"
X02d_NoOfferAfterClose ==      \* closed chanWriters are not in s.subs: nothing can be offered to them any more
  \A c \in Live : cws[c].st = "closed" => subs[c[1]] # c[2]

X02e_NoPanic == ~panicked
X02e_ClosedMeansGone ==
  closeRet => /\ AllWritersGone /\ wpc = "done" /\ rpc = "done"
              /\ \A c \in Live : cws[c].buf = <<>> /\ \A b \in SeqToSet(cws[c].acc) : Completed(c, b)
X02e_CloseCanFinish == (closedPts /\ ~closeRet) => ENABLED ServiceStep

\* negative-control targets / vacuity probes (expected to be violated = reachable)
Probe_DropReachable == \A c \in Live : cws[c].drop = <<>>
Probe_AnyFailover == \A c \in Live : Mode(cws[c].def) = "ANY" => \A b \in Batches : Cardinality(Atts(c, b)) <= 1
Probe_Redefined == \A k \in Keys : inc[k] <= 1
Probe_CloseReturns == ~closeRet
Probe_CreateFails == createFail = 0
=============================================================================
