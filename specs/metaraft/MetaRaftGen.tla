---------------------------- MODULE MetaRaftGen ----------------------------
(***************************************************************************)
(* Behaviour generator for the replay on real storeFSM instances (no raft: *)
(* the harness plays the agreed log).  One step = one call the harness     *)
(* makes:                                                                  *)
(*   submit   append a command to the agreed log (Submit . Commit)          *)
(*   apply n  storeFSM.Apply of the next log entry on node n                *)
(*   snapshot n   storeFSM.Snapshot(); the harness KEEPS the returned       *)
(*                raft.FSMSnapshot                                          *)
(*   persist n    that object's Persist into an in-memory sink (later!)     *)
(*   publish n    store.snapshot(): the clone handed to the HTTP handler /  *)
(*                a polling client, kept by the harness                     *)
(*   crash n / restart n   drop the FSM / new FSM, Restore of the newest    *)
(*                persisted snapshot                                        *)
(*   install n m  node n restores the newest snapshot file of node m        *)
(* After every step the harness compares, for every node, the projection of *)
(* the live value, of the held snapshot object (through Persist/Restore in  *)
(* a scratch FSM), of the persisted bytes and of every published clone with *)
(* `st`.                                                                    *)
(***************************************************************************)
EXTENDS MetaRaft, Json

CONSTANTS GenLen, MaxLog, MaxPubs
VARIABLES hist, pubs

gvars == <<vars, hist, pubs>>

SnapProj(s) == IF s = NoSnap THEN [index |-> -1] ELSE s
NodeProj(n) == [up |-> up'[n], applied |-> applied'[n], data |-> fsm'[n],
                held |-> SnapProj(snapHeld'[n]), file |-> SnapProj(snapFile'[n])]
Proj == [nodes |-> [n \in Nodes |-> NodeProj(n)], pubs |-> pubs', loglen |-> Len(log')]
Log(rec) == hist' = Append(hist, rec @@ [st |-> Proj])

Quiet == UNCHANGED <<pending, nextId, leader, crashes, clientVars>>

MinApplied == IF UpNodes = {} THEN 0
              ELSE CHOOSE m \in {applied[n] : n \in UpNodes} : \A n \in UpNodes : applied[n] >= m

GSubmit(cmd) ==
  /\ Len(log) < MaxLog /\ Len(log) <= MinApplied + 2
  /\ log' = Append(log, [id |-> Len(log) + 1, cmd |-> cmd, cl |-> None, ldr |-> None])
  /\ folds' = Append(folds, ApplyCmd(folds[Len(folds)], cmd).d)
  /\ Quiet /\ UNCHANGED <<nodeVars, snapVars, pubs>>
  /\ Log([a |-> "submit", cmd |-> cmd, idx |-> Len(log) + 1])

GApply(n) ==
  /\ up[n] /\ applied[n] < Len(log)
  /\ applied' = [applied EXCEPT ![n] = @ + 1]
  /\ fsm' = [fsm EXCEPT ![n] = ApplyCmd(@, log[applied[n] + 1].cmd).d]
  /\ Quiet /\ UNCHANGED <<log, folds, up, snapVars, pubs>>
  /\ Log([a |-> "apply", n |-> n, idx |-> applied[n] + 1, cmd |-> log[applied[n] + 1].cmd,
          err |-> ApplyCmd(fsm[n], log[applied[n] + 1].cmd).err])

GSnapshot(n) ==
  /\ up[n] /\ snapHeld[n] = NoSnap
  /\ snapHeld' = [snapHeld EXCEPT ![n] = [index |-> applied[n], data |-> fsm[n]]]
  /\ Quiet /\ UNCHANGED <<log, folds, nodeVars, snapFile, base, nsnap, pubs>>
  /\ Log([a |-> "snapshot", n |-> n])

GPersist(n) ==
  /\ up[n] /\ snapHeld[n] # NoSnap
  /\ snapFile' = [snapFile EXCEPT ![n] = IF @.index >= snapHeld[n].index THEN @ ELSE snapHeld[n]]
  /\ snapHeld' = [snapHeld EXCEPT ![n] = NoSnap]
  /\ Quiet /\ UNCHANGED <<log, folds, nodeVars, base, nsnap, pubs>>
  /\ Log([a |-> "persist", n |-> n])

GPublish(n) ==
  /\ up[n] /\ Len(pubs) < MaxPubs
  /\ pubs' = Append(pubs, [index |-> applied[n], data |-> fsm[n]])
  /\ Quiet /\ UNCHANGED <<log, folds, nodeVars, snapVars>>
  /\ Log([a |-> "publish", n |-> n])

GCrash(n) ==
  /\ up[n] /\ crashes < MaxCrashes
  /\ up' = [up EXCEPT ![n] = FALSE]
  /\ applied' = [applied EXCEPT ![n] = 0] /\ fsm' = [fsm EXCEPT ![n] = EmptyData]
  /\ snapHeld' = [snapHeld EXCEPT ![n] = NoSnap]
  /\ crashes' = crashes + 1
  /\ UNCHANGED <<log, folds, pending, nextId, leader, clientVars, snapFile, base, nsnap, pubs>>
  /\ Log([a |-> "crash", n |-> n])

GRestart(n) ==
  /\ ~up[n]
  /\ up' = [up EXCEPT ![n] = TRUE]
  /\ applied' = [applied EXCEPT ![n] = SnapIdx(n)]
  /\ fsm' = [fsm EXCEPT ![n] = snapFile[n].data]
  /\ Quiet /\ UNCHANGED <<log, folds, snapVars, pubs>>
  /\ Log([a |-> "restart", n |-> n])

GInstall(n, m) ==
  /\ n # m /\ up[n] /\ snapFile[m] # NoSnap /\ snapFile[m].index > applied[n]
  /\ snapFile' = [snapFile EXCEPT ![n] = snapFile[m]]
  /\ applied' = [applied EXCEPT ![n] = snapFile[m].index]
  /\ fsm' = [fsm EXCEPT ![n] = snapFile[m].data]
  /\ Quiet /\ UNCHANGED <<log, folds, up, snapHeld, base, nsnap, pubs>>
  /\ Log([a |-> "install", n |-> n, m |-> m])

GInit == Init /\ hist = <<>> /\ pubs = <<>>

GNext ==
  /\ Len(hist) < GenLen
  /\ \/ \E cmd \in Cmds : GSubmit(cmd)
     \/ \E n \in Nodes : GApply(n) \/ GSnapshot(n) \/ GPersist(n) \/ GPublish(n) \/ GCrash(n) \/ GRestart(n)
     \/ \E n, m \in Nodes : GInstall(n, m)

GSpec == GInit /\ [][GNext]_gvars

Emit == (Len(hist) = GenLen) => PrintT(<<"BEHAVIOUR", ToJson(hist)>>)
=============================================================================
