---------------------------- MODULE MetaRaftGen ----------------------------
(***************************************************************************)
(* Behaviour generator for the replay on real storeFSM instances (no raft: *)
(* the harness plays the agreed log).  One step = one call the harness     *)
(* makes:                                                                  *)
(*   submit   append a command to the agreed log (Submit . Commit)          *)
(*   apply n  storeFSM.Apply of the next log entry on node n                *)
(*   snapshot n   storeFSM.Snapshot(); the harness KEEPS the returned       *)
(*                raft.FSMSnapshot                                          *)
(*   persist n    that object's Persist into an in-memory sink (later!)     *)
(*   publish n    store.snapshot(): the clone handed to the HTTP handler /  *)
(*                a polling client, kept by the harness                     *)
(*   crash n / restart n   drop the FSM / new FSM, Restore of the newest    *)
(*                persisted snapshot                                        *)
(*   install n m  node n restores the newest snapshot file of node m        *)
(* After every step the harness compares, for every node, the projection of *)
(* the live value, of the held snapshot object (through Persist/Restore in  *)
(* a scratch FSM), of the persisted bytes and of every published clone with *)
(* `st`.                                                                    *)
(***************************************************************************)
EXTENDS MetaRaft, Json

CONSTANTS GenLen, MaxLog, MaxPubs,
          PreludeLen   \* 0..5: how much of the fixed prelude every node has applied before the behaviour starts
VARIABLES hist, pubs

gvars == <<vars, hist, pubs>>

SnapProj(s) == IF s = NoSnap THEN [index |-> -1] ELSE s
NodeProj(n) == [up |-> up'[n], applied |-> applied'[n], data |-> fsm'[n],
                held |-> SnapProj(snapHeld'[n]), file |-> SnapProj(snapFile'[n])]
Proj == [nodes |-> [n \in Nodes |-> NodeProj(n)], pubs |-> pubs', loglen |-> Len(log')]
Log(rec) == hist' = Append(hist, rec @@ [st |-> Proj])

Quiet == UNCHANGED <<pending, nextId, leader, crashes, clientVars>>

MinApplied == IF UpNodes = {} THEN 0
              ELSE CHOOSE m \in {applied[n] : n \in UpNodes} : \A n \in UpNodes : applied[n] >= m

\* Generation filter (not part of the model): no silent no-ops, and never two commands in a row that leave
\* the value unchanged - otherwise most random commands are rejected ones on a nearly empty value.
Effective(cmd) == ApplyCmd(folds[Len(folds)], cmd).d # folds[Len(folds)]
LastChanged == IF Len(log) = 0 THEN TRUE ELSE folds[Len(folds)] # folds[Len(folds) - 1]

GSubmit(cmd) ==
  /\ Len(log) < MaxLog /\ Len(log) <= MinApplied + 2
  /\ IF Effective(cmd) THEN TRUE ELSE (LastChanged /\ ApplyCmd(folds[Len(folds)], cmd).err # "ok")
  /\ log' = Append(log, [id |-> Len(log) + 1, cmd |-> cmd, cl |-> None, ldr |-> None])
  /\ folds' = Append(folds, ApplyCmd(folds[Len(folds)], cmd).d)
  /\ Quiet /\ UNCHANGED <<nodeVars, snapVars, pubs>>
  /\ Log([a |-> "submit", cmd |-> cmd, idx |-> Len(log) + 1])

GApply(n) ==
  /\ up[n] /\ applied[n] < Len(log)
  /\ applied' = [applied EXCEPT ![n] = @ + 1]
  /\ fsm' = [fsm EXCEPT ![n] = ApplyCmd(@, log[applied[n] + 1].cmd).d]
  /\ Quiet /\ UNCHANGED <<log, folds, up, snapVars, pubs>>
  /\ Log([a |-> "apply", n |-> n, idx |-> applied[n] + 1, cmd |-> log[applied[n] + 1].cmd,
          err |-> ApplyCmd(fsm[n], log[applied[n] + 1].cmd).err])

GSnapshot(n) ==
  /\ up[n] /\ snapHeld[n] = NoSnap
  /\ snapHeld' = [snapHeld EXCEPT ![n] = [index |-> applied[n], data |-> fsm[n]]]
  /\ Quiet /\ UNCHANGED <<log, folds, nodeVars, snapFile, base, nsnap, pubs>>
  /\ Log([a |-> "snapshot", n |-> n])

GPersist(n) ==
  /\ up[n] /\ snapHeld[n] # NoSnap
  /\ snapFile' = [snapFile EXCEPT ![n] = IF @.index >= snapHeld[n].index THEN @ ELSE snapHeld[n]]
  /\ snapHeld' = [snapHeld EXCEPT ![n] = NoSnap]
  /\ Quiet /\ UNCHANGED <<log, folds, nodeVars, base, nsnap, pubs>>
  /\ Log([a |-> "persist", n |-> n])

GPublish(n) ==
  /\ up[n] /\ Len(pubs) < MaxPubs
  /\ pubs' = Append(pubs, [index |-> applied[n], data |-> fsm[n]])
  /\ Quiet /\ UNCHANGED <<log, folds, nodeVars, snapVars>>
  /\ Log([a |-> "publish", n |-> n])

GCrash(n) ==
  /\ up[n] /\ crashes < MaxCrashes
  /\ up' = [up EXCEPT ![n] = FALSE]
  /\ applied' = [applied EXCEPT ![n] = 0] /\ fsm' = [fsm EXCEPT ![n] = EmptyData]
  /\ snapHeld' = [snapHeld EXCEPT ![n] = NoSnap]
  /\ crashes' = crashes + 1
  /\ UNCHANGED <<log, folds, pending, nextId, leader, clientVars, snapFile, base, nsnap, pubs>>
  /\ Log([a |-> "crash", n |-> n])

GRestart(n) ==
  /\ ~up[n]
  /\ up' = [up EXCEPT ![n] = TRUE]
  /\ applied' = [applied EXCEPT ![n] = SnapIdx(n)]
  /\ fsm' = [fsm EXCEPT ![n] = snapFile[n].data]
  /\ Quiet /\ UNCHANGED <<log, folds, snapVars, pubs>>
  /\ Log([a |-> "restart", n |-> n])

GInstall(n, m) ==
  /\ n # m /\ up[n] /\ snapFile[m] # NoSnap /\ snapFile[m].index > applied[n]
  /\ snapFile' = [snapFile EXCEPT ![n] = snapFile[m]]
  /\ applied' = [applied EXCEPT ![n] = snapFile[m].index]
  /\ fsm' = [fsm EXCEPT ![n] = snapFile[m].data]
  /\ Quiet /\ UNCHANGED <<log, folds, up, snapHeld, base, nsnap, pubs>>
  /\ Log([a |-> "install", n |-> n, m |-> m])

\* A fixed prelude (applied on every node by the harness before step 1) so that the random part starts from a
\* value with a database, two subscriptions and two data nodes: the in-place rewrites need something to rewrite.
PreludeAll == <<[t |-> "CDB", db |-> "d1"], [t |-> "CDN", h |-> "a1", a |-> "a1"], [t |-> "CSUB", db |-> "d1", s |-> "s1"],
                [t |-> "CSUB", db |-> "d1", s |-> "s2"], [t |-> "CDN", h |-> "a2", a |-> "a2"]>>
Prelude == SubSeq(PreludeAll, 1, PreludeLen)
Data0 == FoldCmds(Prelude, PreludeLen)
Node0 == [up |-> TRUE, applied |-> PreludeLen, data |-> Data0, held |-> [index |-> -1], file |-> [index |-> -1]]

GInit ==
  /\ log = [i \in 1..PreludeLen |-> [id |-> i, cmd |-> Prelude[i], cl |-> None, ldr |-> None]]
  /\ folds = [i \in 1..(PreludeLen + 1) |-> FoldCmds(Prelude, i - 1)]
  /\ pending = {} /\ nextId = 1
  /\ up = [n \in Nodes |-> TRUE]
  /\ applied = [n \in Nodes |-> PreludeLen] /\ fsm = [n \in Nodes |-> Data0]
  /\ snapHeld = [n \in Nodes |-> NoSnap] /\ snapFile = [n \in Nodes |-> NoSnap]
  /\ base = [n \in Nodes |-> 0] /\ nsnap = [n \in Nodes |-> 0]
  /\ leader = None /\ crashes = 0
  /\ cstate = [c \in Clients |-> "idle"] /\ cur = [c \in Clients |-> 0] /\ cwait = [c \in Clients |-> 0]
  /\ cacheIndex = [c \in Clients |-> 0] /\ cacheData = [c \in Clients |-> EmptyData]
  /\ acks = {} /\ ackCache = [i \in {} |-> 0]
  /\ pubs = <<>>
  /\ hist = <<[a |-> "prelude", cmds |-> Prelude,
               st |-> [nodes |-> [n \in Nodes |-> Node0], pubs |-> <<>>, loglen |-> PreludeLen]]>>

GNext ==
  /\ Len(hist) < GenLen
  /\ \/ \E cmd \in Cmds : GSubmit(cmd)
     \/ \E n \in Nodes : GApply(n) \/ GSnapshot(n) \/ GPersist(n) \/ GPublish(n) \/ GCrash(n) \/ GRestart(n)
     \/ \E n, m \in Nodes : GInstall(n, m)

GSpec == GInit /\ [][GNext]_gvars

Emit == (Len(hist) = GenLen) => PrintT(<<"BEHAVIOUR", ToJson(hist)>>)
=============================================================================
