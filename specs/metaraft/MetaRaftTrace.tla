--------------------------- MODULE MetaRaftTrace ---------------------------
(***************************************************************************)
(* Validation of a trace recorded from a REAL meta cluster (3 meta.Service *)
(* with real hashicorp/raft in one process + real meta.Client instances)   *)
(* against the model: code -> spec.                                        *)
(*                                                                         *)
(* The events come from the verif hooks in storeFSM.Apply / Snapshot /     *)
(* Persist / Restore and Client.pollForUpdates / retryUntilExec, plus the  *)
(* driver's own records of calls, kills and restarts.  They are consumed   *)
(* in the order the hooks ran (one process, one recorder lock: a hook that *)
(* ran earlier is earlier in the file, so causality apply -> response ->   *)
(* ack is preserved); nothing is ordered by wall-clock time and all        *)
(* per-node checks use only that node's own sequence (`last`).             *)
(*                                                                         *)
(* The trace spec rebuilds the model state from the events:                *)
(*   seen[k]  - the agreed log entry with raft index k as first reported,  *)
(*              with the MODEL value after it: ApplyCmd(seen[prev].data,c) *)
(*   last[n]  - index node n's state machine stands at (its `applied`)     *)
(*   held[o]  - snapshot objects captured and not yet persisted (snapHeld) *)
(*   cidx[c]  - client cache index (cacheIndex)                            *)
(* and accepts an event only if the corresponding MetaRaft action allows   *)
(* it and the reported state is the model's state:                         *)
(*   apply    same index => same command, error class, term and hash on    *)
(*            all nodes; the node's projected value = model value; the     *)
(*            node applies the agreed sequence without gaps                *)
(*   snapshot captures the node's current value                            *)
(*   persist  writes exactly what was captured (point in time)             *)
(*   restore  yields the value the log defines at the restored index       *)
(*   install  client cache index never decreases; content = value at index *)
(*   ack/call a successful call implies the command is applied and the     *)
(*            client's cache has reached it                                *)
(*   final    after quiescence all nodes and clients agree on the value    *)
(*            the whole log defines                                        *)
(***************************************************************************)
EXTENDS MetaCmds, TLC, Json

Trace == ndJsonDeserialize("trace.ndjson")
N == Len(Trace)

VARIABLES i, seen, last, held, cidx, bad
tvars == <<i, seen, last, held, cidx, bad>>

Has(e, f) == f \in DOMAIN e
MaxSeen == CHOOSE k \in DOMAIN seen : \A j \in DOMAIN seen : j <= k
Upd(f, k, v) == (k :> v) @@ f
LastOf(n) == IF n \in DOMAIN last THEN last[n] ELSE 1
CidxOf(c) == IF c \in DOMAIN cidx THEN cidx[c] ELSE 0

TInit ==
  /\ i = 1 /\ bad = ""
  /\ seen = [k \in {} |-> 0] /\ last = [n \in {} |-> 0] /\ held = [o \in {} |-> 0] /\ cidx = [c \in {} |-> 0]
  /\ TLCSet(1, 0) /\ TLCSet(2, "")

\* Each handler yields [ok |-> "" or a reason, seen, last, held, cidx].
Res(r, s, l, h, c) == [why |-> r, seen |-> s, last |-> l, held |-> h, cidx |-> c]
Same(r) == Res(r, seen, last, held, cidx)

\* the freshly created store: raft index 1, empty value
OnInit(e) == Res("", Upd(seen, e.idx, [cmd |-> [t |-> "INIT"], err |-> "ok", term |-> 0, hash |-> e.hash,
                                        data |-> EmptyData, prev |-> 0]), last, held, cidx)

OnApply(e) ==
  LET n == e.n  k == e.idx  p == LastOf(n) IN
  IF p \notin DOMAIN seen THEN Same("apply:unknown-predecessor")
  ELSE IF k <= p THEN Same("apply:order")
  ELSE LET exp == ApplyCmd(seen[p].data, e.cmd)
           known == e.cmd.t # "OTHER" IN
       IF k \in DOMAIN seen /\ seen[k].cmd # e.cmd THEN Same("apply:diverge:command")
       ELSE IF k \in DOMAIN seen /\ seen[k].prev # p THEN Same("apply:diverge:gap")
       ELSE IF k \in DOMAIN seen /\ seen[k].hash # e.hash THEN Same("apply:diverge:state")
       ELSE IF k \in DOMAIN seen /\ (seen[k].err # e.err \/ seen[k].term # e.term) THEN Same("apply:diverge:result")
       ELSE IF e.proj # exp.d THEN Same("apply:state:" \o e.cmd.t)
       ELSE IF known /\ e.err # exp.err THEN Same("apply:err:" \o e.cmd.t)
       ELSE Res("", IF k \in DOMAIN seen THEN seen
                    ELSE Upd(seen, k, [cmd |-> e.cmd, err |-> e.err, term |-> e.term, hash |-> e.hash,
                                       data |-> exp.d, prev |-> p]),
                Upd(last, n, k), held, cidx)

OnSnapshot(e) ==
  IF e.idx # LastOf(e.n) THEN Same("snapshot:index")
  ELSE IF e.idx \notin DOMAIN seen \/ seen[e.idx].hash # e.hash \/ seen[e.idx].data # e.proj THEN Same("snapshot:state")
  ELSE Res("", seen, last, Upd(held, e.obj, [idx |-> e.idx, hash |-> e.hash]), cidx)

OnPersist(e) ==
  IF e.obj \notin DOMAIN held THEN Same("persist:unknown-object")
  ELSE IF held[e.obj].idx # e.idx THEN Same("persist:pit:index")
  ELSE IF held[e.obj].hash # e.hash \/ seen[e.idx].data # e.proj THEN Same("persist:pit:state")
  ELSE Same("")

OnRestore(e) ==
  IF e.idx \notin DOMAIN seen THEN Same("restore:unknown-index")
  ELSE IF seen[e.idx].hash # e.hash \/ seen[e.idx].data # e.proj THEN Same("restore:fidelity")
  ELSE Res("", seen, Upd(last, e.n, e.idx), held, cidx)

OnUp(e) == Res("", seen, Upd(last, e.n, 1), held, cidx)      \* a new process: fresh store at index 1

OnInstall(e) ==
  IF e.idx < CidxOf(e.c) THEN Same("client:regress")
  ELSE IF e.idx \notin DOMAIN seen THEN Same("client:unknown-index")
  ELSE IF seen[e.idx].hash # e.hash \/ seen[e.idx].data # e.proj THEN Same("client:state")
  ELSE Res("", seen, last, held, Upd(cidx, e.c, e.idx))

OnAck(e) ==
  IF e.idx \notin DOMAIN seen THEN Same("ack:unapplied")
  ELSE IF e.cache < e.idx \/ CidxOf(e.c) < e.idx THEN Same("ack:cache-behind")
  ELSE Same("")

\* a call that returned success: the command is in the agreed log, applied without error, at an index
\* the client's cache has reached
OnCall(e) ==
  IF e.res # "ok" THEN Same("")
  ELSE IF ~\E k \in DOMAIN seen : seen[k].cmd = e.cmd /\ seen[k].err = "ok" THEN Same("call:acked-not-applied")
  ELSE IF ~\E k \in DOMAIN seen : seen[k].cmd = e.cmd /\ seen[k].err = "ok" /\ k <= CidxOf(e.c) THEN Same("call:cache-behind")
  ELSE Same("")

OnFinal(e) ==
  IF e.idx # MaxSeen THEN Same("final:behind")
  ELSE IF seen[e.idx].hash # e.hash \/ seen[e.idx].data # e.proj THEN Same("final:diverged")
  ELSE Same("")

Handle(e) ==
  CASE e.e = "init"     -> OnInit(e)
    [] e.e = "apply"    -> OnApply(e)
    [] e.e = "snapshot" -> OnSnapshot(e)
    [] e.e = "persist"  -> OnPersist(e)
    [] e.e = "restore"  -> OnRestore(e)
    [] e.e = "up"       -> OnUp(e)
    [] e.e = "down"     -> Same("")
    [] e.e = "reset"    -> Res("", [k \in {} |-> 0], [n \in {} |-> 0], [o \in {} |-> 0], [c \in {} |-> 0])   \* next recorded run
    [] e.e = "install"  -> OnInstall(e)
    [] e.e = "ack"      -> OnAck(e)
    [] e.e = "call"     -> OnCall(e)
    [] e.e = "final"    -> OnFinal(e)
    [] e.e = "finalc"   -> OnFinal(e)
    [] OTHER            -> Same("unknown-event")

TNext ==
  /\ i <= N /\ bad = ""
  /\ LET r == Handle(Trace[i]) IN
       IF r.why = ""
       THEN /\ seen' = r.seen /\ last' = r.last /\ held' = r.held /\ cidx' = r.cidx
            /\ i' = i + 1 /\ bad' = "" /\ TLCSet(1, i)
       ELSE /\ bad' = r.why /\ TLCSet(2, r.why)
            /\ UNCHANGED <<i, seen, last, held, cidx>>

TSpec == TInit /\ [][TNext]_tvars

\* acceptance: every line consumed
Post == /\ PrintT(<<"HWM", TLCGet(1), N>>)
        /\ PrintT(<<"REJECT", TLCGet(2)>>)
        /\ TLCGet(1) = N
=============================================================================
