------------------------------ MODULE MetaRaft ------------------------------
(***************************************************************************)
(* Replication of the cluster metadata by the meta service                 *)
(* (services/meta: store.go, store_fsm.go, raft_state.go, handler.go,      *)
(* client.go).                                                             *)
(*                                                                         *)
(* hashicorp/raft is a trusted dependency: it is abstracted as ONE agreed  *)
(* sequence `log` of committed commands plus the set `pending` of entries  *)
(* a leader has appended but not committed.  Everything the repository's   *)
(* own code does around it is explicit, one action per call / durable step *)
(*                                                                         *)
(*   Propose      client POSTs /execute to the leader (handler.serveExec,  *)
(*                raftState.apply -> raft.Apply)                           *)
(*   Commit       raft commits the entry (majority up)                     *)
(*   DropPending  an uncommitted entry of a deposed/crashed leader is lost *)
(*   Apply(n)     storeFSM.Apply on node n (clone, mutate, publish)        *)
(*   Respond(c)   the leader applied c's entry: HTTP response carrying     *)
(*                store.index() (>= the entry's index)                     *)
(*   Fail(c)      the request fails (leader died / deposed): no ack        *)
(*   WaitDone(c)  Client.waitForIndex returns: the call is ACKNOWLEDGED    *)
(*   Poll(c,n)    Client.pollForUpdates: long poll of node n returns newer *)
(*                data which the client installs as its cache              *)
(*   Snapshot(n)  storeFSM.Snapshot: captures the value (raft FSM thread)  *)
(*   Persist(n)   storeFSMSnapshot.Persist: LATER, on raft's snapshot      *)
(*                thread, possibly after further Apply(n) steps            *)
(*   CompactLog(n) raft truncates n's log up to its newest snapshot        *)
(*   Crash(n) / Restart(n)  process death / restart: storeFSM.Restore of   *)
(*                the newest snapshot file, then the log suffix is applied *)
(*                again through Apply(n)                                   *)
(*   InstallSnapshot(n)  a follower behind the leader's compacted log is   *)
(*                sent the leader's snapshot (storeFSM.Restore)            *)
(*   LeaderElect / LeaderChange                                           *)
(*                                                                         *)
(* Indices are positions in `log` (the implementation's raft indices also  *)
(* number configuration / no-op entries; the trace spec maps them).        *)
(***************************************************************************)
EXTENDS MetaCmds, TLC

CONSTANTS Nodes,        \* meta nodes
          Clients,      \* data-node clients (meta.Client)
          Kinds, DBs, SubNames, Addrs, Ids,   \* command universe: kinds and argument domains
          MaxCmds,      \* bound on the number of proposals (guard in Propose, not a state constraint)
          MaxSnaps,     \* snapshots per node
          MaxCrashes,   \* crashes in total
          Dev           \* deviations switched on for negative controls: subset of {"persistLive", "staleInstall"}

VARIABLES log, folds, pending, nextId,
          up, applied, fsm,
          snapHeld, snapFile, base, nsnap,
          leader, crashes,
          cstate, cur, cwait, cacheIndex, cacheData,
          acks, ackCache

vars == <<log, folds, pending, nextId, up, applied, fsm, snapHeld, snapFile, base, nsnap,
          leader, crashes, cstate, cur, cwait, cacheIndex, cacheData, acks, ackCache>>

nodeVars   == <<up, applied, fsm>>
snapVars   == <<snapHeld, snapFile, base, nsnap>>
clientVars == <<cstate, cur, cwait, cacheIndex, cacheData, acks, ackCache>>

\* command universe (records understood by MetaCmds!ApplyCmd)
Cmds ==
  {c \in    {[t |-> "CDB", db |-> d] : d \in DBs}
       \cup {[t |-> "DDB", db |-> d] : d \in DBs}
       \cup {[t |-> "CDN", h |-> a, a |-> a] : a \in Addrs}
       \cup {[t |-> "UDN", id |-> i, h |-> a, a |-> a] : i \in Ids, a \in Addrs}
       \cup {[t |-> "CMN", h |-> a, a |-> a] : a \in Addrs}
       \cup {[t |-> "CSUB", db |-> d, s |-> x] : d \in DBs, x \in SubNames}
       \cup {[t |-> "DSUB", db |-> d, s |-> x] : d \in DBs, x \in SubNames} : c.t \in Kinds}

None   == "none"
Sym    == Permutations(Nodes)      \* safety configurations only
NoSnap == [index |-> -1, data |-> EmptyData]

CmdsOf(l) == [i \in 1..Len(l) |-> l[i].cmd]
Fold(i)   == folds[i + 1]                      \* the value the agreed log defines at index i (= FoldCmds(CmdsOf(log), i), kept incrementally)
UpNodes   == {n \in Nodes : up[n]}
Majority  == 2 * Cardinality(UpNodes) > Cardinality(Nodes)
PosOf(id) == IF \E i \in 1..Len(log) : log[i].id = id
             THEN CHOOSE i \in 1..Len(log) : log[i].id = id ELSE 0
SnapIdx(n) == IF snapFile[n] = NoSnap THEN 0 ELSE snapFile[n].index

-----------------------------------------------------------------------------
Init ==
  /\ log = <<>> /\ folds = <<EmptyData>> /\ pending = {} /\ nextId = 1
  /\ up = [n \in Nodes |-> TRUE]
  /\ applied = [n \in Nodes |-> 0] /\ fsm = [n \in Nodes |-> EmptyData]
  /\ snapHeld = [n \in Nodes |-> NoSnap] /\ snapFile = [n \in Nodes |-> NoSnap]
  /\ base = [n \in Nodes |-> 0] /\ nsnap = [n \in Nodes |-> 0]
  /\ leader = None /\ crashes = 0
  /\ cstate = [c \in Clients |-> "idle"] /\ cur = [c \in Clients |-> 0] /\ cwait = [c \in Clients |-> 0]
  /\ cacheIndex = [c \in Clients |-> 0] /\ cacheData = [c \in Clients |-> EmptyData]
  /\ acks = {} /\ ackCache = [i \in {} |-> 0]

\* --- consensus (abstracted) --------------------------------------------------
LeaderElect ==
  /\ leader = None /\ Majority
  /\ \E n \in UpNodes : leader' = n
  /\ UNCHANGED <<log, folds, pending, nextId, nodeVars, snapVars, crashes, clientVars>>

LeaderChange ==        \* leadership transfer / spurious election while everybody stays up
  /\ leader # None /\ Majority
  /\ \E n \in UpNodes \ {leader} : leader' = n
  /\ UNCHANGED <<log, folds, pending, nextId, nodeVars, snapVars, crashes, clientVars>>

Propose(c, cmd) ==
  /\ cstate[c] = "idle" /\ leader # None /\ up[leader] /\ nextId <= MaxCmds
  /\ pending' = pending \cup {[id |-> nextId, cmd |-> cmd, cl |-> c, ldr |-> leader]}
  /\ nextId' = nextId + 1
  /\ cstate' = [cstate EXCEPT ![c] = "sent"] /\ cur' = [cur EXCEPT ![c] = nextId]
  /\ UNCHANGED <<log, folds, nodeVars, snapVars, leader, crashes, cwait, cacheIndex, cacheData, acks, ackCache>>

\* a command the leader issues itself (store.createMetaNode / setMetaNode ... -> store.apply): no client
Submit(cmd) ==
  /\ leader # None /\ up[leader] /\ nextId <= MaxCmds
  /\ pending' = pending \cup {[id |-> nextId, cmd |-> cmd, cl |-> None, ldr |-> leader]}
  /\ nextId' = nextId + 1
  /\ UNCHANGED <<log, folds, nodeVars, snapVars, leader, crashes, clientVars>>

Commit(p) ==
  /\ p \in pending /\ leader # None /\ Majority
  /\ log' = Append(log, p) /\ pending' = pending \ {p}
  /\ folds' = Append(folds, ApplyCmd(folds[Len(folds)], p.cmd).d)
  /\ UNCHANGED <<nextId, nodeVars, snapVars, leader, crashes, clientVars>>

Deposed(p) == p.ldr # leader        \* includes p.ldr = None: the accepting process died

DropPending(p) ==
  /\ p \in pending /\ Deposed(p)
  /\ pending' = pending \ {p}
  /\ UNCHANGED <<log, folds, nextId, nodeVars, snapVars, leader, crashes, clientVars>>

\* --- state machine -----------------------------------------------------------
Apply(n) ==
  /\ up[n] /\ applied[n] < Len(log)
  /\ applied' = [applied EXCEPT ![n] = @ + 1]
  /\ fsm' = [fsm EXCEPT ![n] = ApplyCmd(@, log[applied[n] + 1].cmd).d]
  /\ UNCHANGED <<log, folds, pending, nextId, up, snapVars, leader, crashes, clientVars>>

Snapshot(n) ==
  /\ up[n] /\ snapHeld[n] = NoSnap /\ nsnap[n] < MaxSnaps
  /\ snapHeld' = [snapHeld EXCEPT ![n] = [index |-> applied[n], data |-> fsm[n]]]
  /\ nsnap' = [nsnap EXCEPT ![n] = @ + 1]
  /\ UNCHANGED <<log, folds, pending, nextId, nodeVars, snapFile, base, leader, crashes, clientVars>>

\* the snapshot store keeps several files; a restart restores the one with the highest index
Persist(n) ==
  /\ up[n] /\ snapHeld[n] # NoSnap
  /\ LET written == IF "persistLive" \in Dev        \* negative control: the held object aliases the live value
                    THEN [index |-> snapHeld[n].index, data |-> fsm[n]] ELSE snapHeld[n] IN
     snapFile' = [snapFile EXCEPT ![n] = IF @.index >= snapHeld[n].index THEN @ ELSE written]
  /\ snapHeld' = [snapHeld EXCEPT ![n] = NoSnap]
  /\ UNCHANGED <<log, folds, pending, nextId, nodeVars, base, nsnap, leader, crashes, clientVars>>

CompactLog(n) ==
  /\ up[n] /\ base[n] < SnapIdx(n)
  /\ base' = [base EXCEPT ![n] = SnapIdx(n)]
  /\ UNCHANGED <<log, folds, pending, nextId, nodeVars, snapHeld, snapFile, nsnap, leader, crashes, clientVars>>

Crash(n) ==
  /\ up[n] /\ crashes < MaxCrashes
  /\ up' = [up EXCEPT ![n] = FALSE]
  /\ log' = [i \in 1..Len(log) |-> IF log[i].ldr = n THEN [log[i] EXCEPT !.ldr = None] ELSE log[i]]   \* nobody will answer these requests
  /\ pending' = {IF p.ldr = n THEN [p EXCEPT !.ldr = None] ELSE p : p \in pending}
  /\ applied' = [applied EXCEPT ![n] = 0] /\ fsm' = [fsm EXCEPT ![n] = EmptyData]
  /\ snapHeld' = [snapHeld EXCEPT ![n] = NoSnap]
  /\ leader' = IF leader = n THEN None ELSE leader
  /\ crashes' = crashes + 1
  /\ UNCHANGED <<folds, nextId, snapFile, base, nsnap, clientVars>>

Restart(n) ==
  /\ ~up[n]
  /\ up' = [up EXCEPT ![n] = TRUE]
  /\ applied' = [applied EXCEPT ![n] = SnapIdx(n)]
  /\ fsm' = [fsm EXCEPT ![n] = snapFile[n].data]          \* storeFSM.Restore (EmptyData when there is no file)
  /\ UNCHANGED <<log, folds, pending, nextId, snapVars, leader, crashes, clientVars>>

InstallSnapshot(n) ==
  /\ up[n] /\ leader # None /\ leader # n /\ up[leader] /\ applied[n] < base[leader]
  /\ snapFile' = [snapFile EXCEPT ![n] = snapFile[leader]]
  /\ base' = [base EXCEPT ![n] = snapFile[leader].index]
  /\ applied' = [applied EXCEPT ![n] = snapFile[leader].index]
  /\ fsm' = [fsm EXCEPT ![n] = snapFile[leader].data]
  /\ UNCHANGED <<log, folds, pending, nextId, up, snapHeld, nsnap, leader, crashes, clientVars>>

\* --- client ------------------------------------------------------------------
Respond(c) ==
  /\ cstate[c] = "sent" /\ PosOf(cur[c]) # 0
  /\ LET i == PosOf(cur[c]) e == log[i] IN
       /\ e.ldr # None /\ up[e.ldr] /\ applied[e.ldr] >= i
       /\ cwait' = [cwait EXCEPT ![c] = applied[e.ldr]]
  /\ cstate' = [cstate EXCEPT ![c] = "wait"]
  /\ UNCHANGED <<log, folds, pending, nextId, nodeVars, snapVars, leader, crashes, cur, cacheIndex, cacheData, acks, ackCache>>

Fail(c) ==
  /\ cstate[c] = "sent"
  /\ \/ \E p \in pending : p.id = cur[c] /\ Deposed(p)
     \/ PosOf(cur[c]) # 0 /\ log[PosOf(cur[c])].ldr = None
     \/ PosOf(cur[c]) = 0 /\ \A p \in pending : p.id # cur[c]
  /\ cstate' = [cstate EXCEPT ![c] = "idle"]
  /\ UNCHANGED <<log, folds, pending, nextId, nodeVars, snapVars, leader, crashes, cur, cwait, cacheIndex, cacheData, acks, ackCache>>

WaitDone(c) ==
  /\ cstate[c] = "wait" /\ cacheIndex[c] >= cwait[c]
  /\ acks' = acks \cup {cur[c]}
  /\ ackCache' = (cur[c] :> cacheIndex[c]) @@ ackCache
  /\ cstate' = [cstate EXCEPT ![c] = "idle"]
  /\ UNCHANGED <<log, folds, pending, nextId, nodeVars, snapVars, leader, crashes, cur, cwait, cacheIndex, cacheData>>

\* long poll: a node answers as soon as it has something newer than the client's index; the client
\* installs what it receives only when it is newer than its cache
Poll(c, n) ==
  /\ up[n] /\ (applied[n] > cacheIndex[c] \/ ("staleInstall" \in Dev /\ applied[n] # cacheIndex[c]))   \* negative control: install whatever arrives
  /\ cacheIndex' = [cacheIndex EXCEPT ![c] = applied[n]]
  /\ cacheData' = [cacheData EXCEPT ![c] = fsm[n]]
  /\ UNCHANGED <<log, folds, pending, nextId, nodeVars, snapVars, leader, crashes, cstate, cur, cwait, acks, ackCache>>

-----------------------------------------------------------------------------
Next ==
  \/ LeaderElect \/ LeaderChange
  \/ \E cmd \in Cmds : Submit(cmd) \/ \E c \in Clients : Propose(c, cmd)
  \/ \E p \in pending : Commit(p) \/ DropPending(p)
  \/ \E n \in Nodes : Apply(n) \/ Snapshot(n) \/ Persist(n) \/ CompactLog(n) \/ Crash(n) \/ Restart(n) \/ InstallSnapshot(n)
  \/ \E c \in Clients : Respond(c) \/ Fail(c) \/ WaitDone(c) \/ \E n \in Nodes : Poll(c, n)

Spec == Init /\ [][Next]_vars

Fairness ==
  /\ WF_vars(LeaderElect)
  /\ \A n \in Nodes : WF_vars(Apply(n)) /\ WF_vars(Restart(n)) /\ WF_vars(InstallSnapshot(n)) /\ WF_vars(Persist(n))
  /\ \A c \in Clients : WF_vars(\E n \in Nodes : Poll(c, n)) /\ WF_vars(WaitDone(c)) /\ WF_vars(Respond(c)) /\ WF_vars(Fail(c))
  /\ WF_vars(\E p \in pending : Commit(p) \/ DropPending(p))

FairSpec == Spec /\ Fairness

-----------------------------------------------------------------------------
\* Properties (C07)

TypeOK ==
  /\ \A n \in Nodes : applied[n] \in 0..Len(log) /\ up[n] \in BOOLEAN
  /\ leader \in Nodes \cup {None}
  /\ \A c \in Clients : cstate[c] \in {"idle", "sent", "wait"} /\ cacheIndex[c] \in 0..Len(log)

\* every replica's value is the fold of the agreed log up to what it applied - across restarts,
\* snapshot restores and installs
C07_StateIsFold == \A n \in Nodes : up[n] => fsm[n] = Fold(applied[n])

\* an acknowledged command is in the agreed log for good, every replica that is at or past its index
\* carries its effect, and every node can get back to it after a crash: what its snapshot file does
\* not cover is still in its log
C07_AckedNeverLost ==
  \A id \in acks :
    /\ PosOf(id) # 0
    /\ \A n \in Nodes :
         /\ (up[n] /\ applied[n] >= PosOf(id)) => fsm[n] = Fold(applied[n])
         /\ base[n] <= SnapIdx(n)

\* a snapshot is the value at its index, although Persist runs after further Apply steps
C07_SnapshotIsPointInTime ==
  \A n \in Nodes :
    /\ snapHeld[n] # NoSnap => snapHeld[n].data = Fold(snapHeld[n].index)
    /\ snapFile[n] # NoSnap => snapFile[n].data = Fold(snapFile[n].index)

\* restoring a snapshot yields exactly the value that produced it (action property)
C07_RestoreFidelity ==
  [][\A n \in Nodes : (~up[n] /\ up'[n]) => (fsm'[n] = Fold(applied'[n]) /\ applied'[n] = SnapIdx(n))]_vars

C07_ClientCacheMonotone == [][\A c \in Clients : cacheIndex'[c] >= cacheIndex[c]]_vars
C07_ClientCacheIsFold == \A c \in Clients : cacheData[c] = Fold(cacheIndex[c])

\* when a client call returns success the client's cache has reached the command's index
C07_AckImpliesClientCaughtUp == \A id \in acks : ackCache[id] >= PosOf(id) /\ PosOf(id) # 0

\* liveness (checked under FairSpec, no state constraint): once faults stop, all replicas and all
\* client caches converge to the agreed log
Converged ==
  /\ \A n \in Nodes : up[n] /\ applied[n] = Len(log) /\ fsm[n] = Fold(Len(log))
  /\ \A c \in Clients : cacheIndex[c] = Len(log) /\ cacheData[c] = Fold(Len(log))
C07_Converge == <>[]Converged
=============================================================================
