------------------------------ MODULE MetaExec ------------------------------
(***************************************************************************)
(* The /execute endpoint of the meta service (handler.go serveExec):       *)
(*   request body --validateCommand--> raft.Apply --> storeFSM.Apply on    *)
(*   every replica, and again on every restart (log replay).               *)
(*                                                                         *)
(* A body is described by the command type it names and by its class:      *)
(*   valid                 type + its own extension, required fields set   *)
(*   typeWithoutExtension  type only                                       *)
(*   wrongExtension        type + a well-formed extension of another type  *)
(*   missingRequired       type + its extension, required fields missing   *)
(*   garbageExtension      type + undecodable bytes in its extension field *)
(*   garbage / empty       not a Command message at all                    *)
(* Types: the ones storeFSM.Apply has a case for (Handled), the ones the   *)
(* protobuf enum knows but Apply does not (Unhandled), and numbers outside *)
(* the enum (Unknown).                                                     *)
(*                                                                         *)
(* storeFSM.Apply can only execute a handled type whose extension decodes; *)
(* anything else blows up the state machine - on every replica and on      *)
(* every replay.  Hence the property: whatever Validate lets through must  *)
(* be executable.  The model below states the REQUIRED behaviour of        *)
(* Validate (accept exactly the executable bodies); the replay posts real  *)
(* bodies of every (type, class) to the real handler and checks that the   *)
(* real validateCommand never lets through more.                           *)
(***************************************************************************)
EXTENDS Integers, Sequences, FiniteSets, TLC, Json

CONSTANTS Handled,     \* command type numbers storeFSM.Apply handles
          Unhandled,   \* enum values without a case in Apply
          Unknown,     \* numbers outside the enum
          Replicas,
          WeakValidate \* negative control: validate only that the bytes parse (what the code did)

Types   == Handled \cup Unhandled \cup Unknown
Classes == {"valid", "typeWithoutExtension", "wrongExtension", "missingRequired", "garbageExtension", "garbage", "empty"}

VARIABLES phase, body, log, state, hist
vars == <<phase, body, log, state, hist>>

Parses(b)     == b.class \notin {"garbage", "empty"}
Executable(b) == b.class = "valid" /\ b.type \in Handled
Validate(b)   == IF WeakValidate THEN Parses(b) ELSE Executable(b)

Init == /\ phase = "idle" /\ body = [type |-> 0, class |-> "none"] /\ log = <<>>
        /\ state = [r \in Replicas |-> "ok"] /\ hist = <<>>

Post(t, c) ==
  /\ phase = "idle"
  /\ body' = [type |-> t, class |-> c]
  /\ phase' = "posted"
  /\ hist' = Append(hist, [type |-> t, class |-> c, expect |-> IF Validate([type |-> t, class |-> c]) THEN "applied" ELSE "rejected"])
  /\ UNCHANGED <<log, state>>

Reject == /\ phase = "posted" /\ ~Validate(body) /\ phase' = "done" /\ UNCHANGED <<body, log, state, hist>>

Propose == /\ phase = "posted" /\ Validate(body) /\ log' = Append(log, body) /\ phase' = "proposed"
           /\ UNCHANGED <<body, state, hist>>

ApplyOn(r) ==
  /\ phase = "proposed" /\ state[r] = "ok" /\ Len(log) > 0
  /\ state' = [state EXCEPT ![r] = IF Executable(log[1]) THEN "applied" ELSE "panicked"]
  /\ UNCHANGED <<phase, body, log, hist>>

\* a panicked replica restarts and replays the log
Restart(r) == /\ state[r] = "panicked" /\ state' = [state EXCEPT ![r] = "ok"] /\ UNCHANGED <<phase, body, log, hist>>

Next == \/ \E t \in Types, c \in Classes : Post(t, c)
        \/ Reject \/ Propose \/ \E r \in Replicas : ApplyOn(r) \/ Restart(r)

Spec == Init /\ [][Next]_vars

\* no request the service accepts can leave the replicas unable to apply their log
C07_AcceptedNeverPoisonsLog == \A r \in Replicas : state[r] # "panicked"
C07_LogOnlyExecutable == \A i \in 1..Len(log) : Executable(log[i])

\* every (type, class) once: the cases handed to the harness
Emit == (phase = "posted") => PrintT(<<"BEHAVIOUR", ToJson(hist)>>)
=============================================================================
