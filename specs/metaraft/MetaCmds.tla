------------------------------ MODULE MetaCmds ------------------------------
(***************************************************************************)
(* The metadata value of services/meta/data.go restricted to what a small  *)
(* command subset touches, and the effect of each command of that subset   *)
(* as storeFSM.Apply performs it (store_fsm.go apply*Command + data.go).    *)
(* Pure operators only: used by MetaRaft (the replication model), by        *)
(* MetaRaftGen (behaviours replayed on real storeFSMs) and by MetaRaftTrace *)
(* (validation of traces recorded from a real 3-node meta cluster).         *)
(*                                                                         *)
(*   Data == [dbs   : Seq([name, rpN, subs : Seq(STRING)]),                 *)
(*            nodes : Seq([id, h, t])   data nodes, sorted by id            *)
(*            metas : Seq([id, h, t])   meta nodes, sorted by id            *)
(*            maxNode : Nat]                                                *)
(*                                                                         *)
(* Conventions calibrated against the running code (not against the        *)
(* property): CreateDatabase on an existing database re-creates the         *)
(* auto-generated policy and fails with "retention policy already exists"   *)
(* when the replication factor computed from the current node count         *)
(* differs; DropDatabase never fails; CreateMetaNode ignores "node exists". *)
(***************************************************************************)
EXTENDS Integers, Sequences, FiniteSets

EmptyData == [dbs |-> <<>>, nodes |-> <<>>, metas |-> <<>>, maxNode |-> 0]

\* first position whose field matches, 0 if none
DbIdx(D, db) == IF \E i \in 1..Len(D.dbs) : D.dbs[i].name = db
                THEN CHOOSE i \in 1..Len(D.dbs) : D.dbs[i].name = db ELSE 0
SubIdx(d, s) == IF \E i \in 1..Len(d.subs) : d.subs[i] = s
                THEN CHOOSE i \in 1..Len(d.subs) : d.subs[i] = s ELSE 0
NodeIdx(ns, id) == IF \E i \in 1..Len(ns) : ns[i].id = id
                   THEN CHOOSE i \in 1..Len(ns) : ns[i].id = id ELSE 0
RemoveAt(s, i) == SubSeq(s, 1, i - 1) \o SubSeq(s, i + 1, Len(s))

\* insert keeping the sequence sorted by id (sort.Sort(NodeInfos) after the append).  Equal ids are possible
\* (UpdateDataNode moves node 1 away from the address it shares with meta node 1, CreateDataNode at that
\* address then re-uses id 1): the appended element stays behind its equals - calibrated against the code,
\* whose sort is an insertion sort for lists this short.
InsertById(ns, x) ==
  LET k == Cardinality({i \in 1..Len(ns) : ns[i].id <= x.id}) IN
  SubSeq(ns, 1, k) \o <<x>> \o SubSeq(ns, k + 1, Len(ns))

\* replication factor of the auto-created policy: number of data nodes clamped to 1..3
AutoRpN(D) == IF Len(D.nodes) < 1 THEN 1 ELSE IF Len(D.nodes) > 3 THEN 3 ELSE Len(D.nodes)

Ok(D)       == [d |-> D, err |-> "ok"]
Fails(D, e) == [d |-> D, err |-> e]

\* id of a node of the other kind registered under the same TCP address, 0 if none
SameTcp(ns, t) == IF \E i \in 1..Len(ns) : ns[i].t = t
                  THEN (CHOOSE i \in 1..Len(ns) : ns[i].t = t /\ \A j \in 1..(i - 1) : ns[j].t # t)
                  ELSE 0

ApplyCmd(D, c) ==
  CASE c.t = "CDB" ->
         LET i == DbIdx(D, c.db) IN
         IF i = 0 THEN Ok([D EXCEPT !.dbs = Append(@, [name |-> c.db, rpN |-> AutoRpN(D), subs |-> <<>>])])
         ELSE IF D.dbs[i].rpN = AutoRpN(D) THEN Ok(D) ELSE Fails(D, "rpexists")
    [] c.t = "DDB" ->
         LET i == DbIdx(D, c.db) IN
         IF i = 0 THEN Ok(D) ELSE Ok([D EXCEPT !.dbs = RemoveAt(@, i)])
    [] c.t = "CDN" ->
         IF \E i \in 1..Len(D.nodes) : D.nodes[i].t = c.a THEN Fails(D, "nodeexists")
         ELSE LET m == SameTcp(D.metas, c.a)
                  \* the meta node's id is shared only while no data node carries it (data node ids are unique)
                  share == m # 0 /\ NodeIdx(D.nodes, D.metas[m].id) = 0
                  id == IF share THEN D.metas[m].id ELSE D.maxNode + 1 IN
              Ok([D EXCEPT !.nodes = InsertById(@, [id |-> id, h |-> c.h, t |-> c.a]),
                           !.maxNode = IF share THEN @ ELSE @ + 1])
    [] c.t = "UDN" ->
         LET i == NodeIdx(D.nodes, c.id) IN
         IF i = 0 THEN Fails(D, "nodenotfound")
         ELSE Ok([D EXCEPT !.nodes[i] = [id |-> c.id, h |-> c.h, t |-> c.a]])
    [] c.t = "CMN" ->
         IF \E i \in 1..Len(D.metas) : D.metas[i].h = c.h THEN Ok(D)
         ELSE LET m == SameTcp(D.nodes, c.a)
                  id == IF m = 0 THEN D.maxNode + 1 ELSE D.nodes[m].id IN
              Ok([D EXCEPT !.metas = InsertById(@, [id |-> id, h |-> c.h, t |-> c.a]),
                           !.maxNode = IF m = 0 THEN @ + 1 ELSE @])
    [] c.t = "CSUB" ->
         LET i == DbIdx(D, c.db) IN
         IF i = 0 THEN Fails(D, "dbnotfound")
         ELSE IF SubIdx(D.dbs[i], c.s) # 0 THEN Fails(D, "subexists")
         ELSE Ok([D EXCEPT !.dbs[i].subs = Append(@, c.s)])
    [] c.t = "DSUB" ->
         LET i == DbIdx(D, c.db) IN
         IF i = 0 THEN Fails(D, "dbnotfound")
         ELSE LET k == SubIdx(D.dbs[i], c.s) IN
              IF k = 0 THEN Fails(D, "subnotfound")
              ELSE Ok([D EXCEPT !.dbs[i].subs = RemoveAt(@, k)])
    [] OTHER -> Ok(D)      \* a command outside the subset that does not touch the projected part

\* the value after the first i entries of a command sequence
RECURSIVE FoldCmds(_, _)
FoldCmds(cmds, i) == IF i = 0 THEN EmptyData ELSE ApplyCmd(FoldCmds(cmds, i - 1), cmds[i]).d
=============================================================================
