------------------------------ MODULE Routing ------------------------------
(* C08 - every point is routed to exactly one, well-defined shard.                      *)
(*                                                                                      *)
(* Metadata of ONE retention policy as services/meta/data.go keeps it, driven by the    *)
(* commands that change shard groups, and coordinator.PointsWriter.MapShards as a pure  *)
(* function of (metadata, batch, cut-off) written loop by loop after the code           *)
(* (points_writer.go: MapShards, sgList.Add/Covers/ShardGroupAt).                       *)
(*                                                                                      *)
(* Time is an integer number of units.  Normal instants are -1..T; LO and HI stand for  *)
(* models.MinNanoTime / models.MaxNanoTime (the extreme representable point times), so  *)
(* HI+1 is the clamped end of the last possible group.  The harness maps a unit to one  *)
(* hour and instant 0 to an aligned origin (Unix epoch 0 when retention is infinite).   *)
(*                                                                                      *)
(* The cut-off: MapShards computes min = now - Duration once.  The model's `cut` says   *)
(* that min lies strictly between instants cut and cut+1: a point is too old iff        *)
(* t <= cut.  cut = NoCut is the infinite policy (nothing is too old).                  *)
(*                                                                                      *)
(* Dev: deviations of the pinned code from the property, kept as switches so that TLC   *)
(* can show that the property formulas do discriminate (negative control) and so that   *)
(* the replay can name the class of a mismatch:                                         *)
(*   "truncIgnored" (F13)  sgList.ShardGroupAt searches on EndTime / Contains and never *)
(*                         looks at TruncatedAt, while the list is sorted on the        *)
(*                         truncated end;                                               *)
(*   "lateCutoff"          the retention cut-off is applied only when deciding whether  *)
(*                         to fetch/create a group, not when the point is mapped.       *)
(* With Dev = {} the model is the repaired algorithm (patches/C08).                     *)
EXTENDS Integers, Sequences, FiniteSets, TLC

CONSTANTS SDs,        \* shard group durations the policy can be altered to (units)
          T,          \* normal instants are -1..T
          LOmag, HI,  \* LO = -LOmag and HI: images of MinNanoTime / MaxNanoTime (cfg files have no negative literals)
          NodeCfgs,   \* set of 10*dataNodes + replicaN
          MaxGroups,  \* bound on the number of groups a history creates (incl. deleted ones)
          CreateTimes, TruncTimes, MaxDel,  \* alphabet of the histories: instants of Create / Truncate, bound on deleted groups
          CreateExtremes,                   \* TRUE: histories also create groups at LO and HI
          MaxBatch,   \* longest batch quantified over by the invariants (infinite policy)
          MaxBatchCut, \* same under a finite cut-off
          Series,     \* 1..S
          HashCodes,  \* {100*series + 10*n + (FNV64a(canonical key) mod n)} computed by the orchestrator
          Cuts,       \* finite cut-offs quantified over (subset of the normal instants)
          Dev

VARIABLES G,      \* sequence of groups, G[id]: [start, end, tr, trunc, del, shards]
          nsh,    \* highest shard id handed out (Data.MaxShardID)
          sd,     \* current ShardGroupDuration of the policy
          cfg     \* 10*dataNodes + replicaN, fixed per behaviour

vars == <<G, nsh, sd, cfg>>

LO == 0 - LOmag

NoCut == LO - 1
Times == (-1)..T
PointTimes == Times \cup {LO, HI}

Max(S) == CHOOSE x \in S : \A y \in S : y <= x
Min(S) == CHOOSE x \in S : \A y \in S : x <= y

-----------------------------------------------------------------------------
(* services/meta/data.go                                                     *)

EffEnd(g) == IF g.tr THEN g.trunc ELSE g.end
\* RetentionPolicyInfo.ShardGroupByTimestamp's predicate
Accepts(g, t) == /\ ~g.del /\ g.start <= t /\ t < g.end
                 /\ (~g.tr \/ t < g.trunc)
DesigSet(GG, t) == {i \in 1..Len(GG) : Accepts(GG[i], t)}
\* the group the metadata designates for t (0 = none)
Designated(GG, t) == IF DesigSet(GG, t) = {} THEN 0 ELSE Min(DesigSet(GG, t))

\* Data.CreateShardGroup: replicaN clipped to 1..nodes, then
\* "shardN := 1; for shardN*replicaN%len(data.DataNodes) != 0 { shardN++ }"   (constant table: evaluated once)
ShardNTab == [c \in NodeCfgs |->
                LET nodes == c \div 10
                    r == c % 10
                    repl == IF r = 0 THEN 1 ELSE IF r > nodes THEN nodes ELSE r
                IN Min({k \in 1..nodes : (k * repl) % nodes = 0})]
ShardN == ShardNTab[cfg]

\* Data.CreateShardGroup once it has decided to create: aligned range clipped against every
\* group that is not deleted (truncated groups count up to their truncation time)
NewRange(GG, t) ==
  LET s0 == (t \div sd) * sd
      e0 == IF s0 + sd > HI THEN HI + 1 ELSE s0 + sd
      live == {i \in 1..Len(GG) : ~GG[i].del}
      s == Max({s0} \cup {EffEnd(GG[i]) : i \in {j \in live : EffEnd(GG[j]) <= t}})
      e == Min({e0} \cup {GG[i].start : i \in {j \in live : GG[j].start > t}})
  IN <<s, e>>

NewGroup(GG, n, t) ==
  LET r == NewRange(GG, t) IN
  [start |-> r[1], end |-> r[2], tr |-> FALSE, trunc |-> 0, del |-> FALSE,
   shards |-> [k \in 1..ShardN |-> n + k]]

\* meta.Client.CreateShardGroup: the designated group if there is one, else create
\* M = [G, nsh];  result [G, nsh, g]
ClientCreate(M, t) ==
  IF Designated(M.G, t) # 0 THEN [G |-> M.G, nsh |-> M.nsh, g |-> Designated(M.G, t)]
  ELSE LET GG == Append(M.G, NewGroup(M.G, M.nsh, t)) IN
       [G |-> GG, nsh |-> M.nsh + ShardN, g |-> Designated(GG, t)]

\* Data.TruncateShardGroups(t)
TruncG(g, t) ==
  IF t >= g.end \/ g.del \/ (g.tr /\ g.trunc < t) THEN g
  ELSE [g EXCEPT !.tr = TRUE, !.trunc = IF t <= g.start THEN g.start ELSE t]

-----------------------------------------------------------------------------
(* coordinator/points_writer.go                                              *)

TooOld(t, cut) == t <= cut

HM(s, n) == IF n = 1 THEN 0 ELSE CHOOSE r \in 0..(n - 1) : (100 * s + 10 * n + r) \in HashCodes

\* sort.Sort(meta.ShardGroupInfos): by truncated end, then start.  The code sorts lazily inside ShardGroupAt;
\* the groups of one list have distinct keys (disjoint non-empty write ranges), so the sorted order does not
\* depend on the insertion order and the model keeps the list sorted: Add = insert at its place.
Less(GG, a, b) ==
  LET ea == EffEnd(GG[a])  eb == EffEnd(GG[b])
  IN IF ea = eb THEN GG[a].start < GG[b].start ELSE ea < eb
InsertSorted(GG, S, x) ==
  LET k == Cardinality({j \in 1..Len(S) : ~Less(GG, x, S[j])})
  IN SubSeq(S, 1, k) \o <<x>> \o SubSeq(S, k + 1, Len(S))

\* sort.Search(n, f): i, j := 0, n; for i < j { h := (i+j)/2; if !f(h) { i = h+1 } else { j = h } }; return i
RECURSIVE Bisect(_, _, _)
Bisect(P, i, j) ==
  IF i >= j THEN i
  ELSE LET h == (i + j) \div 2 IN IF ~P[h + 1] THEN Bisect(P, h + 1, j) ELSE Bisect(P, i, h)

\* key of the binary search / predicate of the linear fallback
SearchEnd(g) == IF "truncIgnored" \in Dev THEN g.end ELSE EffEnd(g)

\* sgList.ShardGroupAt over the sorted list S (sequence of group ids); 0 = nil
SGAt(GG, S, t) ==
  IF S = <<>> THEN 0
  ELSE
    LET n == Len(S)
        idx == Bisect([k \in 1..n |-> SearchEnd(GG[S[k]]) > t], 0, n) + 1
    IN IF idx <= n /\ t >= GG[S[idx]].start THEN S[idx]
       ELSE \* not found by the search: "t is not in range" shortcut, then the linear search
         LET earliest == Min({GG[S[k]].start : k \in 1..n})
             latest == Max({GG[S[k]].end : k \in 1..n})
             hits == {k \in 1..n : GG[S[k]].start <= t /\ t < SearchEnd(GG[S[k]])}
         IN IF t < earliest \/ t > latest \/ hits = {} THEN 0 ELSE S[Min(hits)]

\* first loop of MapShards: fetch or create the groups the batch needs
RECURSIVE Loop1(_, _, _, _, _)
Loop1(i, b, cut, M, L) ==
  IF i > Len(b) THEN [G |-> M.G, nsh |-> M.nsh, L |-> L]
  ELSE LET t == b[i][2] IN
       IF TooOld(t, cut) \/ SGAt(M.G, L, t) # 0 THEN Loop1(i + 1, b, cut, M, L)
       ELSE LET c == ClientCreate(M, t) IN
            Loop1(i + 1, b, cut, [G |-> c.G, nsh |-> c.nsh], InsertSorted(c.G, L, c.g))

\* second loop: <<group id, shard id>> per batch position, <<0, 0>> = dropped
RouteOf(p, cut, GG, L) ==
  IF ~("lateCutoff" \in Dev) /\ TooOld(p[2], cut) THEN <<0, 0>>
  ELSE LET g == SGAt(GG, L, p[2]) IN
       IF g = 0 THEN <<0, 0>>
       ELSE <<g, GG[g].shards[HM(p[1], Len(GG[g].shards)) + 1]>>

\* the ShardMapping the code builds: Points[shard] and Dropped are sequences of batch positions
Positions(b, routes, sh) == SelectSeq([k \in 1..Len(b) |-> k], LAMBDA k : routes[k][2] = sh)

MapShards(M, b, cut) ==
  LET l1 == Loop1(1, b, cut, M, <<>>)
      routes == [k \in 1..Len(b) |-> RouteOf(b[k], cut, l1.G, l1.L)]
      shs == {routes[k][2] : k \in 1..Len(b)} \ {0}
  IN [G |-> l1.G, nsh |-> l1.nsh, routes |-> routes,
      points |-> [x \in shs |-> Positions(b, routes, x)],
      dropped |-> Positions(b, routes, 0)]

-----------------------------------------------------------------------------
(* The state machine: histories of the metadata                              *)

M0 == [G |-> G, nsh |-> nsh]

Init == /\ G = <<>> /\ nsh = 0
        /\ sd \in SDs /\ cfg \in NodeCfgs

\* lazy creation by a write, or pre-creation (PrecreateShardGroups asks for the end of the last
\* group plus 1ns; in units that is Create(end))
Create(t) ==
  /\ Len(G) < MaxGroups
  /\ Designated(G, t) = 0
  /\ LET c == ClientCreate(M0, t) IN G' = c.G /\ nsh' = c.nsh
  /\ UNCHANGED <<sd, cfg>>

AlterSD(d) == /\ d # sd /\ sd' = d /\ UNCHANGED <<G, nsh, cfg>>

Truncate(t) ==
  /\ G' = [i \in 1..Len(G) |-> TruncG(G[i], t)]
  /\ G' # G
  /\ UNCHANGED <<nsh, sd, cfg>>

Delete(i) ==
  /\ i \in 1..Len(G) /\ ~G[i].del
  /\ Cardinality({j \in 1..Len(G) : G[j].del}) < MaxDel
  /\ G' = [G EXCEPT ![i].del = TRUE]
  /\ UNCHANGED <<nsh, sd, cfg>>

HistCreateTimes == CreateTimes \cup (IF CreateExtremes THEN {LO, HI} ELSE {})
Next == \/ \E t \in HistCreateTimes : Create(t)
        \/ \E d \in SDs : AlterSD(d)
        \/ \E t \in TruncTimes : Truncate(t)
        \/ \E i \in 1..MaxGroups : Delete(i)

Spec == Init /\ [][Next]_vars

-----------------------------------------------------------------------------
(* Batches the invariants quantify over                                      *)

\* boundary instants of the groups of the state, plus the extreme timestamps
Instants ==
  LET bs == UNION {{G[i].start - 1, G[i].start, G[i].end - 1, G[i].end} \cup
                   (IF G[i].tr THEN {G[i].trunc - 1, G[i].trunc} ELSE {}) : i \in 1..Len(G)}
  IN ((bs \cup {0, 5}) \cap Times) \cup {LO, HI}

SerOf(k) == ((k - 1) % Cardinality(Series)) + 1
\* times of length n; series by position (the series only selects the shard inside the group);
\* single points with every series
Batches(n) ==
  LET I == Instants IN
  {<<<<s, t>>>> : s \in Series, t \in I} \cup
  UNION {{[k \in 1..m |-> <<SerOf(k), f[k]>>] : f \in [1..m -> I]} : m \in 2..n}

CutsHere == {NoCut} \cup Cuts

-----------------------------------------------------------------------------
(* Properties                                                                *)

TypeOK == /\ \A i \in 1..Len(G) : /\ G[i].start < G[i].end
                                  /\ G[i].tr => (G[i].start <= G[i].trunc /\ G[i].trunc < G[i].end)
                                  /\ Len(G[i].shards) = ShardN
          /\ sd \in SDs /\ cfg \in NodeCfgs /\ nsh = Len(G) * ShardN

\* the designated group is well defined: at most one live group accepts an instant
C08_WellDefined == \A t \in PointTimes : Cardinality(DesigSet(G, t)) <= 1
\* creating for an instant that has no group yields a group that accepts it
C08_CreateCovers == \A t \in PointTimes : ClientCreate(M0, t).g # 0

\* what the property says about ONE point (series s, instant t) under cut-off c, from the metadata alone:
\* dropped iff too old, else the designated group - the existing one, or the one creation would make -
\* identified by its range, and the shard position by the series hash.
Want(t, c) ==
  IF TooOld(t, c) THEN <<"dropped", 0, 0>>
  ELSE LET cc == ClientCreate(M0, t) IN <<"group", cc.G[cc.g].start, cc.G[cc.g].end>>
WantTable == [c \in CutsHere |-> [t \in Instants |-> Want(t, c)]]

Occ(R, k) == Cardinality({x \in DOMAIN R.points : \E j \in 1..Len(R.points[x]) : R.points[x][j] = k})
Drp(R, k) == \E j \in 1..Len(R.dropped) : R.dropped[j] = k

ExactlyOne(R, b, c) == \A k \in 1..Len(b) : ~TooOld(b[k][2], c) => (Occ(R, k) = 1 /\ ~Drp(R, k))
DesignatedGroup(R, b, c) ==
  \A k \in 1..Len(b) : R.routes[k][1] # 0 =>
     /\ DesigSet(R.G, b[k][2]) = {R.routes[k][1]}
     /\ R.routes[k][2] = R.G[R.routes[k][1]].shards[HM(b[k][1], ShardN) + 1]
DroppedIffTooOld(R, b, c) == \A k \in 1..Len(b) : Drp(R, k) <=> TooOld(b[k][2], c)
NoLossNoDup(R, b, c) ==
  /\ \A k \in 1..Len(b) : Occ(R, k) + (IF Drp(R, k) THEN 1 ELSE 0) = 1
  /\ \A x \in DOMAIN R.points : \A j \in 1..(Len(R.points[x]) - 1) : R.points[x][j] < R.points[x][j + 1]
  /\ \A j \in 1..(Len(R.dropped) - 1) : R.dropped[j] < R.dropped[j + 1]
\* the route of a point in a batch is its route when written alone (same group range, same shard position)
BatchIndependent(R, b, W) ==
  \A k \in 1..Len(b) :
     LET g == R.routes[k][1] IN
     IF g = 0 THEN W[b[k][2]][1] = "dropped"
     ELSE W[b[k][2]] = <<"group", R.G[g].start, R.G[g].end>>

AllBatches(P(_, _, _)) ==
  LET WT == WantTable IN
  \A c \in CutsHere : \A b \in Batches(IF c = NoCut THEN MaxBatch ELSE MaxBatchCut) : P(b, c, WT[c])

C08_ExactlyOne == AllBatches(LAMBDA b, c, W : ExactlyOne(MapShards(M0, b, c), b, c))
C08_DesignatedGroup == AllBatches(LAMBDA b, c, W : DesignatedGroup(MapShards(M0, b, c), b, c))
C08_DroppedIffTooOld == AllBatches(LAMBDA b, c, W : DroppedIffTooOld(MapShards(M0, b, c), b, c))
C08_NoLossNoDup == AllBatches(LAMBDA b, c, W : NoLossNoDup(MapShards(M0, b, c), b, c))
C08_BatchIndependent == AllBatches(LAMBDA b, c, W : BatchIndependent(MapShards(M0, b, c), b, W))

\* lazily created groups are the groups pre-creation would have made: the metadata after a write is the
\* metadata after ClientCreate for the points that are not too old, in batch order
RECURSIVE CreateAll(_, _, _, _)
CreateAll(i, b, cut, M) ==
  IF i > Len(b) THEN M
  ELSE IF TooOld(b[i][2], cut) THEN CreateAll(i + 1, b, cut, M)
       ELSE LET c == ClientCreate(M, b[i][2]) IN CreateAll(i + 1, b, cut, [G |-> c.G, nsh |-> c.nsh])
LazyEqualsPre(R, b, c) == [G |-> R.G, nsh |-> R.nsh] = CreateAll(1, b, c, M0)
C08_LazyEqualsPre == AllBatches(LAMBDA b, c, W : LazyEqualsPre(MapShards(M0, b, c), b, c))

\* the five routing properties in one pass (MapShards is evaluated once per batch)
C08_All == AllBatches(LAMBDA b, c, W : LET R == MapShards(M0, b, c) IN
             /\ ExactlyOne(R, b, c) /\ DesignatedGroup(R, b, c) /\ DroppedIffTooOld(R, b, c)
             /\ NoLossNoDup(R, b, c) /\ BatchIndependent(R, b, W))

\* C08_TagOrderIndependent: a series IS its canonical key (measurement + tags sorted by key); the order in
\* which the tags were given is not part of the model's input, so the route cannot depend on it.  The
\* harness realises every series with permuted tag orders, and HashCodes comes from an independent FNV-64a
\* of the canonical key, which binds the real code to this statement.
C08_TagOrderIndependent == \A s \in Series : \A n \in 2..3 : Cardinality({r \in 0..(n - 1) : (100 * s + 10 * n + r) \in HashCodes}) = 1

=============================================================================
