----------------------------- MODULE RoutingGen -----------------------------
(* Scenario generator for the replay on the real meta.Data + PointsWriter.MapShards.            *)
(*                                                                                              *)
(* A scenario = one metadata history (a witness path to a distinct metadata state) with the     *)
(* projected groups after every step, plus the table of what the PROPERTY demands for a single  *)
(* point at every boundary instant of the final state (designated group: the existing one, or   *)
(* the range creation would give; the shard by series hash is HashCodes, known to the harness). *)
(* The harness runs every batch of up to 3 such instants, in every order, under every cut-off,  *)
(* through the real MapShards and demands for every point of every batch exactly the table      *)
(* entry of that point: that is C08_BatchIndependent + C08_DesignatedGroup as the oracle.       *)
(* Routing.tla proves that the model's own MapShards agrees with this table (C08_All).          *)
(*                                                                                              *)
(* exhaustive mode: BFS with `VIEW GView` (hist is not part of the view), so every distinct     *)
(* reachable metadata state is emitted exactly once with a shortest history leading to it.      *)
(* simulate mode: random longer histories, emitted at length GenLen.                            *)
EXTENDS Routing, Json

CONSTANT GenLen     \* simulate: emit when the history (incl. the init record) has this length; exhaustive: 0 = emit every state
VARIABLE hist

gvars == <<vars, hist>>
GView == vars

ProjG(GG) == [i \in 1..Len(GG) |-> [id |-> i, s |-> GG[i].start, e |-> GG[i].end, tr |-> GG[i].tr,
                                     ta |-> GG[i].trunc, del |-> GG[i].del, sh |-> GG[i].shards]]
Log(rec) == hist' = Append(hist, rec @@ [st |-> ProjG(G')])

GCreate(t) == /\ Create(t)
              /\ Log([a |-> "create", t |-> t,
                      \* pre-creation form: the instant is the end of a live group (asked for as end+1ns)
                      pre |-> \E i \in 1..Len(G) : ~G[i].del /\ G[i].end = t])
GAlterSD(d) == /\ AlterSD(d) /\ Log([a |-> "altersd", d |-> d])
GTruncate(t) == /\ Truncate(t) /\ Log([a |-> "truncate", t |-> t])
GDelete(i) == /\ Delete(i) /\ Log([a |-> "delete", i |-> i])

GInit == Init /\ hist = <<[a |-> "init", d |-> sd, c |-> cfg, st |-> <<>>]>>
GNext == /\ (GenLen = 0 \/ Len(hist) < GenLen)
         /\ \/ \E t \in HistCreateTimes : GCreate(t)
            \/ \E d \in SDs : GAlterSD(d)
            \/ \E t \in TruncTimes : GTruncate(t)
            \/ \E i \in 1..MaxGroups : GDelete(i)
GSpec == GInit /\ [][GNext]_gvars

\* per instant: designated existing group (0 = none) and the range of the designated / to-be-created group
Row(t) == LET cc == ClientCreate(M0, t) IN
          [t |-> t, g |-> Designated(G, t), s |-> cc.G[cc.g].start, e |-> cc.G[cc.g].end]
Scenario == [cfg |-> cfg, sd |-> sd, nsh |-> nsh, shardn |-> ShardN,
             hist |-> hist, groups |-> ProjG(G),
             rows |-> {Row(t) : t \in Instants}]

Emit == (GenLen = 0 \/ Len(hist) = GenLen) => PrintT(<<"BEHAVIOUR", ToJson(Scenario)>>)
=============================================================================
