------------------------------- MODULE PoolGen -------------------------------
(* Sequential behaviours of the pool API for replay on the real boundedPool: every step is one   *)
(* complete call (Get with a scripted factory outcome, Close of a pooled connection, MarkUnusable,*)
(* pool Close), i.e. the composition of Pool's sub-steps with no other goroutine in between.      *)
EXTENDS Pool, Json

CONSTANT GenLen
VARIABLE hist
gvars == <<vars, hist>>

Proj == [idle |-> idle', tokens |-> tokens', open |-> open', live |-> live']
Log(rec) == hist' = Append(hist, rec @@ [st |-> Proj])
Quiet == UNCHANGED <<sawOpen, ppc, pheld>>

GGet(c, dialok) ==
  /\ pc[c] = "idle" /\ held[c] = 0
  /\ IF ~open
     THEN /\ UNCHANGED <<open, idle, tokens, live, next, pc, held, unusable>> /\ Quiet
          /\ Log([a |-> "get", c |-> c, res |-> "closed", dialok |-> dialok])
     ELSE IF idle # <<>>
     THEN /\ held' = [held EXCEPT ![c] = Head(idle)] /\ idle' = Tail(idle) /\ pc' = [pc EXCEPT ![c] = "using"]
          /\ UNCHANGED <<open, tokens, live, next, unusable>> /\ Quiet
          /\ Log([a |-> "get", c |-> c, res |-> Head(idle), dialok |-> dialok])
     ELSE IF tokens < Max
     THEN IF dialok
          THEN /\ tokens' = tokens + 1 /\ live' = live \cup {next} /\ held' = [held EXCEPT ![c] = next]
               /\ next' = next + 1 /\ pc' = [pc EXCEPT ![c] = "using"]
               /\ UNCHANGED <<open, idle, unusable>> /\ Quiet
               /\ Log([a |-> "get", c |-> c, res |-> next, dialok |-> dialok])
          ELSE /\ UNCHANGED <<open, idle, tokens, live, next, pc, held, unusable>> /\ Quiet
               /\ Log([a |-> "get", c |-> c, res |-> "dialerr", dialok |-> dialok])
     ELSE /\ UNCHANGED <<open, idle, tokens, live, next, pc, held, unusable>> /\ Quiet
          /\ Log([a |-> "get", c |-> c, res |-> "timeout", dialok |-> dialok])

GRelease(c) == /\ Release(c) /\ Log([a |-> "release", c |-> c])
GMark(c) == /\ Mark(c) /\ Log([a |-> "mark", c |-> c])
GClose == /\ Len(hist) >= GenLen \div 2 /\ ClosePool /\ Log([a |-> "close"])

GInit == Init /\ hist = <<>>
GNext == /\ Len(hist) < GenLen /\ next <= MaxConns
         /\ \/ \E c \in Clients, d \in BOOLEAN : GGet(c, d)
            \/ \E c \in Clients : GRelease(c) \/ GMark(c)
            \/ GClose
GSpec == GInit /\ [][GNext]_gvars
Emit == (Len(hist) = GenLen) => PrintT(<<"BEHAVIOUR", ToJson(hist)>>)
=============================================================================
