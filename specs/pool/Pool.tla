-------------------------------- MODULE Pool --------------------------------
(***************************************************************************)
(* coordinator/pool.go: the bounded connection pool of the inter-node      *)
(* client (idle channel `conns`, token channel `total`, RWMutex around the *)
(* channel pointers), and the check-then-create of a node's pool in        *)
(* ShardWriter.dial / MetaExecutor.dial (client_pool.go).                  *)
(* One action per channel operation / critical section of the code.        *)
(***************************************************************************)
EXTENDS Integers, FiniteSets, Sequences, TLC

CONSTANTS Clients,      \* goroutines using the pool
          Max,          \* maxCap
          MaxConns,     \* bound on connections ever created (state constraint)
          Prune,        \* TRUE: the idle pruner runs
          Dev           \* deviations kept as negative controls: subset of {"prunerStuck"}

VARIABLES open,         \* pool not closed (c.conns # nil)
          idle,         \* sequence of idle connections (the `conns` channel)
          tokens,       \* len(total)
          live,         \* connections created and not closed
          next,         \* next connection id
          pc, held,     \* per client: program counter, connection in hand (0 = none)
          sawOpen,      \* per client: Get captured a non-nil conns channel
          unusable,     \* connections marked unusable by their user
          ppc, pheld    \* pruner: pc and the connections it took out of the channel

vars == <<open, idle, tokens, live, next, pc, held, sawOpen, unusable, ppc, pheld>>

Range(s) == {s[i] : i \in DOMAIN s}

Init == /\ open = TRUE /\ idle = <<>> /\ tokens = 0 /\ live = {} /\ next = 1
        /\ pc = [c \in Clients |-> "idle"] /\ held = [c \in Clients |-> 0]
        /\ sawOpen = [c \in Clients |-> FALSE] /\ unusable = {}
        /\ ppc = "idle" /\ pheld = <<>>

\* Get(): getConnsAndFactory
GetStart(c) == /\ pc[c] = "idle"
               /\ IF open THEN pc' = [pc EXCEPT ![c] = "try"] /\ sawOpen' = [sawOpen EXCEPT ![c] = TRUE]
                  ELSE pc' = pc /\ sawOpen' = sawOpen           \* ErrClosed
               /\ UNCHANGED <<open, idle, tokens, live, next, held, unusable, ppc, pheld>>

\* first select: an idle connection, else try to create one
TryIdle(c) == /\ pc[c] = "try" /\ idle # <<>>
              /\ held' = [held EXCEPT ![c] = Head(idle)] /\ idle' = Tail(idle)
              /\ pc' = [pc EXCEPT ![c] = "using"]
              /\ UNCHANGED <<open, tokens, live, next, sawOpen, unusable, ppc, pheld>>

\* the captured channel was closed and drained by Close(): receive yields nil -> ErrClosed
TryClosed(c) == /\ pc[c] \in {"try", "wait"} /\ ~open /\ idle = <<>>
                /\ pc' = [pc EXCEPT ![c] = "idle"]
                /\ UNCHANGED <<open, idle, tokens, live, next, held, sawOpen, unusable, ppc, pheld>>

\* default branch: tryTake() (under RLock; false when closed or no token left)
TryTake(c) == /\ pc[c] = "try" /\ idle = <<>> /\ (open \/ TRUE)
              /\ IF open /\ tokens < Max
                 THEN tokens' = tokens + 1 /\ pc' = [pc EXCEPT ![c] = "dial"]
                 ELSE tokens' = tokens /\ pc' = [pc EXCEPT ![c] = "wait"]
              /\ UNCHANGED <<open, idle, live, next, held, sawOpen, unusable, ppc, pheld>>

DialOk(c) == /\ pc[c] = "dial" /\ next <= MaxConns
             /\ live' = live \cup {next} /\ held' = [held EXCEPT ![c] = next] /\ next' = next + 1
             /\ pc' = [pc EXCEPT ![c] = "using"]
             /\ UNCHANGED <<open, idle, tokens, sawOpen, unusable, ppc, pheld>>

\* factory error: tryFree() (no-op when the pool was closed meanwhile: total is nil)
DialFail(c) == /\ pc[c] = "dial"
               /\ tokens' = IF open /\ tokens > 0 THEN tokens - 1 ELSE tokens
               /\ pc' = [pc EXCEPT ![c] = "idle"]
               /\ UNCHANGED <<open, idle, live, next, held, sawOpen, unusable, ppc, pheld>>

\* second select: wait for a free connection or time out
WaitIdle(c) == /\ pc[c] = "wait" /\ idle # <<>>
               /\ held' = [held EXCEPT ![c] = Head(idle)] /\ idle' = Tail(idle)
               /\ pc' = [pc EXCEPT ![c] = "using"]
               /\ UNCHANGED <<open, tokens, live, next, sawOpen, unusable, ppc, pheld>>
WaitTimeout(c) == /\ pc[c] = "wait"
                  /\ pc' = [pc EXCEPT ![c] = "idle"]
                  /\ UNCHANGED <<open, idle, tokens, live, next, held, sawOpen, unusable, ppc, pheld>>

Mark(c) == /\ pc[c] = "using" /\ held[c] \notin unusable
           /\ unusable' = unusable \cup {held[c]}
           /\ UNCHANGED <<open, idle, tokens, live, next, pc, held, sawOpen, ppc, pheld>>

\* pooledConn.Close(): unusable -> tryFree + close; else put(): closed -> close; room -> idle; full -> tryFree + close
Release(c) ==
  /\ pc[c] = "using"
  /\ LET k == held[c] IN
     IF k \in unusable
     THEN /\ tokens' = IF open /\ tokens > 0 THEN tokens - 1 ELSE tokens
          /\ live' = live \ {k} /\ idle' = idle
     ELSE IF ~open THEN /\ live' = live \ {k} /\ UNCHANGED <<tokens, idle>>
     ELSE IF Len(idle) < Max THEN /\ idle' = Append(idle, k) /\ UNCHANGED <<tokens, live>>
     ELSE /\ tokens' = IF tokens > 0 THEN tokens - 1 ELSE tokens /\ live' = live \ {k} /\ idle' = idle
  /\ held' = [held EXCEPT ![c] = 0] /\ pc' = [pc EXCEPT ![c] = "idle"]
  /\ UNCHANGED <<open, next, sawOpen, unusable, ppc, pheld>>

\* Close(): pointers set to nil under the write lock, then the idle channel is closed and drained
ClosePool == /\ open
             /\ open' = FALSE /\ live' = live \ Range(idle) /\ idle' = <<>>
             /\ UNCHANGED <<tokens, next, pc, held, sawOpen, unusable, ppc, pheld>>

\* pruneIdleConns: take everything out of the channel; expired ones are closed (tryFree), the others put back
PruneTake == /\ Prune /\ ppc = "idle" /\ open /\ idle # <<>>
             /\ pheld' = idle /\ idle' = <<>> /\ ppc' = "sort"
             /\ UNCHANGED <<open, tokens, live, next, pc, held, sawOpen, unusable>>
PruneExpire == /\ ppc = "sort" /\ pheld # <<>>            \* the head of what was taken is expired
               /\ live' = live \ {Head(pheld)} /\ pheld' = Tail(pheld)
               /\ tokens' = IF open /\ tokens > 0 THEN tokens - 1 ELSE tokens
               /\ UNCHANGED <<open, idle, next, pc, held, sawOpen, unusable, ppc>>
PruneKeep == /\ ppc = "sort" /\ ppc' = "reinsert"
             /\ UNCHANGED <<open, idle, tokens, live, next, pc, held, sawOpen, unusable, pheld>>
\* re-insertion under RLock; when the pool was closed meanwhile (c.conns is nil) the connections that were taken
\* out are closed instead.  "prunerStuck" in Dev is the behaviour found in the repository (kept as a negative
\* control): the send on the nil channel blocked forever with the read lock held and the connections leaked.
PruneReinsert == /\ ppc = "reinsert"
                 /\ IF open \/ pheld = <<>>
                    THEN /\ idle' = idle \o pheld /\ UNCHANGED live
                    ELSE /\ "prunerStuck" \notin Dev
                         /\ live' = live \ Range(pheld) /\ UNCHANGED idle
                 /\ pheld' = <<>> /\ ppc' = "idle"
                 /\ UNCHANGED <<open, tokens, next, pc, held, sawOpen, unusable>>

Next == \/ \E c \in Clients : GetStart(c) \/ TryIdle(c) \/ TryClosed(c) \/ TryTake(c) \/ DialOk(c) \/ DialFail(c)
                              \/ WaitIdle(c) \/ WaitTimeout(c) \/ Mark(c) \/ Release(c)
        \/ ClosePool \/ PruneTake \/ PruneExpire \/ PruneKeep \/ PruneReinsert

Spec == Init /\ [][Next]_vars
Bounded == next <= MaxConns + 1

-----------------------------------------------------------------------------
InUse == {held[c] : c \in {d \in Clients : held[d] # 0}}

TypeOK == tokens \in 0..Max /\ Len(idle) <= Max

\* C19 (pool): never more than Max live connections; while open every live connection holds a token
C19_PoolBound == Cardinality(live) <= Max
C19_TokenPerConn == open => Cardinality(live) + Cardinality({c \in Clients : pc[c] = "dial"}) = tokens
\* a connection is never in two hands, nor idle and in use at once
C19_NoSharing == /\ \A c, d \in Clients : c # d /\ held[c] # 0 => held[c] # held[d]
                 /\ Range(idle) \cap InUse = {}
                 /\ \A i, j \in DOMAIN idle : i # j => idle[i] # idle[j]
\* nothing is handed out from a closed pool, and only live connections are handed out
C19_OnlyLiveHandedOut == InUse \subseteq live /\ Range(idle) \subseteq live
\* after Close, once every user has given its connection back, no connection is left open
Quiescent == ~open /\ \A c \in Clients : pc[c] = "idle"
C19_NothingLeftAfterClose == Quiescent /\ ppc = "idle" => live = {}
\* a pruner that had taken connections out when Close ran can always finish (negative control: Dev prunerStuck)
C19_PrunerNeverStuck == ppc = "reinsert" => ENABLED PruneReinsert
=============================================================================
