------------------------------ MODULE MetaData ------------------------------
(***************************************************************************)
(* C06 - cluster metadata (services/meta/data.go `Data`) as a value, and   *)
(* one operator per command of storeFSM.Apply (services/meta/store_fsm.go).*)
(*                                                                         *)
(* Every command is a FUNCTION  Do<Cmd>(d, args) -> [md, err]  of the       *)
(* current value and the command's arguments (C06_Deterministic is thereby *)
(* a fact of the model; for the code it is shown by replay on k replicas). *)
(* err = "ok" : the command was accepted (possibly as a silent no-op);     *)
(* anything else: rejected with that error class, md unchanged.            *)
(*                                                                         *)
(* Time: integers in `units`; MinDur units = 1 hour = the minimum          *)
(* retention/shard-group duration (the harness maps a unit to 1h/MinDur    *)
(* and instant 0 to Unix epoch 0).  Durations use the same unit; a value   *)
(* 0 < x < MinDur is "below the minimum".                                  *)
(*                                                                         *)
(* What is NOT modelled (recorded in notes/C06.md): RemovePeerCommand and  *)
(* CreateNodeCommand (need a live raft instance; pre-0.10 migration),      *)
(* SetDataCommand (wholesale replacement), Term.  The raft index is not    *)
(* part of the value: the only place where it influences the result is the *)
(* round-robin start of CreateShardGroup, which takes it as argument `ix`. *)
(*                                                                         *)
(* CALIBRATED CONVENTIONS (read off the unchanged code, data.go/store_fsm.go;*)
(* they are conventions -- which call is a silent no-op, which error wins --*)
(* not invariants; the invariants below come from the property text):      *)
(*  K1  CreateDatabase of an existing name is not an error and still goes  *)
(*      on to create the requested / auto-created policy and make it the   *)
(*      default; "policy exists with other parameters" is reported as      *)
(*      rpConflict when the policy came with the command, as rpExists when *)
(*      it is the auto-created one.                                        *)
(*  K2  CreateRetentionPolicy check order: name, length, replicaN, duration*)
(*      vs normalised shard duration, database, existing policy.  An       *)
(*      identical existing policy is a no-op unless makeDefault asks for a *)
(*      different default (rpConflict).                                    *)
(*  K3  UpdateRetentionPolicy resolves name "" to the default policy       *)
(*      (DatabaseInfo.RetentionPolicy), all other commands match names     *)
(*      literally (Data.RetentionPolicy).  It does not check the new name  *)
(*      (may be "" or longer than 255), nor replicaN (0 accepted), and does*)
(*      not move DefaultRetentionPolicy when the default policy is renamed.*)
(*      The duration/shard-duration compatibility test uses the raw        *)
(*      (un-normalised) shard duration of the command.                     *)
(*  K4  DropDatabase, DropRetentionPolicy, DropContinuousQuery, DropShard, *)
(*      CopyShardOwner/RemoveShardOwner of an unknown shard,               *)
(*      TruncateShardGroups, PruneShardGroups never fail.                  *)
(*  K5  CreateShardGroup: no data nodes => silent no-op (checked before    *)
(*      the database!); a live, not-yet-truncated-at-ts group containing   *)
(*      ts => silent no-op; replicaN 0 is treated as 1.                    *)
(*  K6  DeleteShardGroup of an already deleted group succeeds (re-stamps). *)
(*  K7  CreateMetaNode / SetMetaNode ignore the error of the Data method   *)
(*      (duplicate address, more than one meta node) and return ok; they   *)
(*      still set ClusterID from the command when it is 0.                 *)
(*  K8  CreateDataNode / CreateMetaNode reuse the id of the meta / data    *)
(*      node with the same TCP address.                                    *)
(*  K9  DeleteDataNode handles deleted groups like live ones; a group whose*)
(*      shards all lose their last owner is marked deleted and keeps its   *)
(*      owner-less shards; otherwise each orphaned shard goes to the node  *)
(*      owning the fewest shards *of that group*.                          *)
(*  K10 RemoveShardOwner removes the shard itself when no owner is left    *)
(*      (also when it had none and the node was not an owner).             *)
(*  K11 CreateContinuousQuery with the same name and case-insensitively    *)
(*      equal text is a no-op.  CreateSubscription validates destinations  *)
(*      before looking up database and policy.                             *)
(*                                                                         *)
(* REPAIRED BEHAVIOUR modelled (patches/C06; the unchanged code deviates): *)
(*  R1 (F9)  DeleteDataNode breaks ties between equally loaded candidate   *)
(*      owners by the smallest node id (code: Go map iteration order).     *)
(*  R2  CopyShardOwner to a node id that is not a data node is rejected    *)
(*      with nodeNotFound (code: accepted, shard owned by a non-member).   *)
(*  R3 (F12) a truncation time equal to instant 0 is a truncation          *)
(*      (tr = 0 # NoTrunc) also after a snapshot/restore round trip.       *)
(*  R4  CreateDataNode does not reuse a meta node's id when a data node    *)
(*      with that id already exists (code: two data nodes with one id).    *)
(***************************************************************************)
EXTENDS Integers, Sequences, FiniteSets, TLC

CONSTANTS
  Names,       \* universe of short names (contains "")
  DbN, RpN, ObjN, \* names offered as database / policy / user-cq-subscription arguments (subsets of Names)
  LongNames,   \* tokens standing for names longer than 255 bytes
  UpdNames, UpdDurs, UpdRFs, UpdSGDs,  \* optional arguments of UpdateRetentionPolicy (may contain NoName / None)
  Ixs,         \* residues offered for the raft index seen by CreateShardGroup
  InitKind,    \* "empty" or the name of a base value below
  SameAddr,    \* TRUE: node commands are offered with HTTP address = TCP address only (smaller exhaustive runs)
  Addrs,       \* node addresses (used for both the HTTP and the TCP address)
  Times,       \* timestamps (units)
  RFs,         \* replication factors offered
  Durs,        \* policy durations offered (units; 0 = infinite)
  SGDs,        \* shard group durations offered (units; 0 = default)
  Hashes, Queries, Privs, DestSets, Modes, Rands,
  MinDur,      \* units per hour
  AutoCreate,  \* Config.RetentionAutoCreate
  Cmds,        \* command types enabled in this configuration
  MaxNodeId, MaxGroupId, MaxShardId, MaxDbs, MaxRps, MaxUsers, MaxCqs, MaxSubs, MaxMeta

VARIABLE md
vars == <<md>>

NoTrunc == -999999      \* "not truncated"
None    == 777777       \* absent optional integer (cfg files cannot hold negative numbers)
NoName  == "<none>"     \* absent optional string

Hour  == MinDur
Day   == 24 * Hour
Week  == 7 * Day
\* hours between Go's zero time (0001-01-01, the origin of time.Truncate) and the Unix epoch
EpochOff == 17259888 * Hour

Max2(a, b) == IF a >= b THEN a ELSE b
Min2(a, b) == IF a <= b THEN a ELSE b
SetMax(S) == CHOOSE x \in S : \A y \in S : y <= x
SetMin(S) == CHOOSE x \in S : \A y \in S : x <= y

FirstIdx(s, P(_)) ==
  IF \E i \in 1..Len(s) : P(s[i])
  THEN CHOOSE i \in 1..Len(s) : P(s[i]) /\ \A j \in 1..(i-1) : ~P(s[j])
  ELSE 0
LastIdx(s, P(_)) ==
  IF \E i \in 1..Len(s) : P(s[i])
  THEN CHOOSE i \in 1..Len(s) : P(s[i]) /\ \A j \in (i+1)..Len(s) : ~P(s[j])
  ELSE 0
RemoveAt(s, i) == SubSeq(s, 1, i-1) \o SubSeq(s, i+1, Len(s))
InsertAt(s, i, x) == SubSeq(s, 1, i-1) \o <<x>> \o SubSeq(s, i, Len(s))   \* x becomes s[i]
Range(s) == {s[i] : i \in 1..Len(s)}
FilterSeq(s, P(_)) == SelectSeq(s, P)

Ok(d) == [md |-> d, err |-> "ok"]
Rej(d, e) == [md |-> d, err |-> e]

Empty == [dn |-> <<>>, mn |-> <<>>, dbs |-> <<>>, users |-> <<>>,
          maxNode |-> 0, maxSG |-> 0, maxShard |-> 0, cluster |-> 0]

----------------------------------------------------------------------------
\* lookups
DbIdx(d, n) == FirstIdx(d.dbs, LAMBDA x : x.name = n)
RpIdx(db, n) == FirstIdx(db.rps, LAMBDA x : x.name = n)                  \* Data.RetentionPolicy: literal
RpIdxDef(db, n) ==                                                        \* DatabaseInfo.RetentionPolicy (K3)
  IF n = "" THEN (IF db.def = "" THEN 0 ELSE RpIdx(db, db.def)) ELSE RpIdx(db, n)
DnIdx(d, id) == FirstIdx(d.dn, LAMBDA x : x.id = id)
MnIdx(d, id) == FirstIdx(d.mn, LAMBDA x : x.id = id)
UserIdx(d, n) == FirstIdx(d.users, LAMBDA x : x.name = n)
DnIds(d) == {d.dn[i].id : i \in 1..Len(d.dn)}

AllRps(d) == UNION {{<<i, j>> : j \in 1..Len(d.dbs[i].rps)} : i \in 1..Len(d.dbs)}
AllGroups(d) == UNION {d.dbs[p[1]].rps[p[2]].groups : p \in AllRps(d)}
ShardsOf(g) == Range(g.shards)
AllShardIds(d) == {s.id : s \in UNION {ShardsOf(g) : g \in AllGroups(d)}}

EffEnd(g) == IF g.tr # NoTrunc THEN g.tr ELSE g.e
Live(g) == g.del = "no"
\* RetentionPolicyInfo.ShardGroupByTimestamp
ContainsTs(g, t) == g.s <= t /\ t < g.e /\ Live(g) /\ (g.tr = NoTrunc \/ t < g.tr)

\* apply F to the group set of every policy
MapGroups(d, F(_)) ==
  [d EXCEPT !.dbs = [i \in 1..Len(d.dbs) |->
      [d.dbs[i] EXCEPT !.rps = [j \in 1..Len(d.dbs[i].rps) |->
          [d.dbs[i].rps[j] EXCEPT !.groups = F(d.dbs[i].rps[j].groups)]]]]]

----------------------------------------------------------------------------
\* durations (data.go shardGroupDuration / normalisedShardDuration)
DefSGD(dur) == IF dur >= 180 * Day \/ dur = 0 THEN Week ELSE IF dur >= 2 * Day THEN Day ELSE Hour
NormSGD(sgd, dur) == IF sgd = 0 THEN DefSGD(dur) ELSE IF sgd < MinDur THEN DefSGD(MinDur) ELSE sgd
\* time.Time.Truncate(d): multiples of d counted from Go's zero time
TruncTo(t, dd) == t - ((t + EpochOff) % dd)

----------------------------------------------------------------------------
\* databases and retention policies
NewDb(n) == [name |-> n, def |-> "", rps |-> <<>>, cqs |-> <<>>]

DoCreateRP(d, dbn, rp, mkdef) ==        \* K2
  IF rp.name = "" THEN Rej(d, "rpNameRequired")
  ELSE IF rp.name \in LongNames THEN Rej(d, "nameTooLong")
  ELSE IF rp.rf < 1 THEN Rej(d, "replicaTooLow")
  ELSE LET sg == NormSGD(rp.sgd, rp.dur) IN
    IF rp.dur > 0 /\ rp.dur < sg THEN Rej(d, "incompatibleDurations")
    ELSE LET di == DbIdx(d, dbn) IN
      IF di = 0 THEN Rej(d, "dbNotFound")
      ELSE LET db == d.dbs[di]
               ri == RpIdx(db, rp.name) IN
        IF ri # 0
        THEN LET e == db.rps[ri] IN
             IF e.rf # rp.rf \/ e.dur # rp.dur \/ e.sgd # sg THEN Rej(d, "rpExists")
             ELSE IF mkdef /\ db.def # rp.name THEN Rej(d, "rpConflict")
             ELSE Ok(d)
        ELSE Ok([d EXCEPT !.dbs[di].rps = Append(@, [name |-> rp.name, rf |-> rp.rf, dur |-> rp.dur, sgd |-> sg,
                                                      groups |-> {}, subs |-> <<>>]),
                          !.dbs[di].def = IF mkdef THEN rp.name ELSE @])

DoCreateDatabase(d, c) ==               \* c = [name, hasRp, rp]   K1
  IF c.name = "" THEN Rej(d, "dbNameRequired")
  ELSE IF c.name \in LongNames THEN Rej(d, "nameTooLong")
  ELSE LET d1 == IF DbIdx(d, c.name) # 0 THEN d ELSE [d EXCEPT !.dbs = Append(@, NewDb(c.name))] IN
    IF c.hasRp
    THEN LET r == DoCreateRP(d1, c.name, c.rp, TRUE) IN
         IF r.err = "ok" THEN r ELSE Rej(d, IF r.err = "rpExists" THEN "rpConflict" ELSE r.err)
    ELSE IF AutoCreate
    THEN LET n  == Len(d1.dn)
             rf == IF n > 3 THEN 3 ELSE IF n < 1 THEN 1 ELSE n
             r  == DoCreateRP(d1, c.name, [name |-> "autogen", rf |-> rf, dur |-> 0, sgd |-> 0], TRUE) IN
         IF r.err = "ok" THEN r ELSE Rej(d, r.err)
    ELSE Ok(d1)

DoDropDatabase(d, c) ==                 \* c = [name]   K4
  LET di == DbIdx(d, c.name) IN
  IF di = 0 THEN Ok(d)
  ELSE Ok([d EXCEPT !.dbs = RemoveAt(@, di),
                    !.users = [i \in 1..Len(d.users) |->
                                 [d.users[i] EXCEPT !.privs = {p \in @ : p.db # c.name}]]])

DoCreateRetentionPolicy(d, c) ==        \* c = [db, rp, def]
  DoCreateRP(d, c.db, c.rp, c.def)

DoDropRetentionPolicy(d, c) ==          \* c = [db, name]   K4
  LET di == DbIdx(d, c.db) IN
  IF di = 0 THEN Ok(d)
  ELSE LET ri == RpIdx(d.dbs[di], c.name) IN
       IF ri = 0 THEN Ok(d) ELSE Ok([d EXCEPT !.dbs[di].rps = RemoveAt(@, ri)])

DoUpdateRetentionPolicy(d, c) ==        \* c = [db, name, newName, dur, rf, sgd, def]   K3
  LET di == DbIdx(d, c.db) IN
  IF di = 0 THEN Rej(d, "dbNotFound")
  ELSE LET db == d.dbs[di]
           ri == RpIdxDef(db, c.name) IN
    IF ri = 0 THEN Rej(d, "rpNotFound")
    ELSE LET e == db.rps[ri] IN
      IF c.newName # NoName /\ c.newName # c.name /\ RpIdxDef(db, c.newName) # 0 THEN Rej(d, "rpNameExists")
      ELSE IF c.dur # None /\ c.dur < MinDur /\ c.dur # 0 THEN Rej(d, "rpDurationTooLow")
      ELSE IF \/ /\ c.dur # None /\ c.dur > 0
                 /\ \/ (c.sgd # None /\ c.dur < c.sgd)
                    \/ (c.sgd = None /\ c.dur < e.sgd)
              \/ (c.dur = None /\ e.dur > 0 /\ c.sgd # None /\ e.dur < c.sgd)
           THEN Rej(d, "incompatibleDurations")
      ELSE LET nm == IF c.newName # NoName THEN c.newName ELSE e.name
               du == IF c.dur # None THEN c.dur ELSE e.dur
               rf == IF c.rf # None THEN c.rf ELSE e.rf
               sg == IF c.sgd # None THEN NormSGD(c.sgd, du) ELSE e.sgd IN
           Ok([d EXCEPT !.dbs[di].rps[ri] = [e EXCEPT !.name = nm, !.dur = du, !.rf = rf, !.sgd = sg],
                        !.dbs[di].def = IF @ # nm /\ c.def THEN nm ELSE @])

----------------------------------------------------------------------------
\* shard groups
DoCreateShardGroup(d, c) ==             \* c = [db, rp, ts, ix]   K5;  ix = raft index of the previously applied entry
  IF Len(d.dn) = 0 THEN Ok(d)
  ELSE LET di == DbIdx(d, c.db) IN
    IF di = 0 THEN Rej(d, "dbNotFound")
    ELSE LET ri == RpIdx(d.dbs[di], c.rp) IN
      IF ri = 0 THEN Rej(d, "rpNotFound")
      ELSE LET rp == d.dbs[di].rps[ri] IN
        IF \E g \in rp.groups : ContainsTs(g, c.ts) THEN Ok(d)
        ELSE LET n  == Len(d.dn)
                 k  == IF rp.rf = 0 THEN 1 ELSE IF rp.rf > n THEN n ELSE rp.rf
                 sn == CHOOSE s \in 1..n : (s * k) % n = 0 /\ \A s2 \in 1..(s-1) : (s2 * k) % n # 0
                 s0 == TruncTo(c.ts, rp.sgd)
                 e0 == s0 + rp.sgd
                 live == {g \in rp.groups : Live(g)}
                 \* the largest [st, en) with st <= ts < en inside the aligned window that meets no live group
                 st == SetMax({s0} \cup {EffEnd(g) : g \in {h \in live : EffEnd(h) <= c.ts /\ EffEnd(h) > s0}})
                 en == SetMin({e0} \cup {g.s : g \in {h \in live : h.s > c.ts /\ h.s < e0}})
                 start == c.ix % n
                 shards == [i \in 1..sn |->
                              [id |-> d.maxShard + i,
                               owners |-> [j \in 1..k |-> d.dn[((start + (i-1) * k + (j-1)) % n) + 1].id]]]
                 g == [id |-> d.maxSG + 1, s |-> st, e |-> en, del |-> "no", tr |-> NoTrunc, shards |-> shards] IN
             Ok([d EXCEPT !.maxSG = @ + 1, !.maxShard = @ + sn,
                          !.dbs[di].rps[ri].groups = @ \cup {g}])

DoDeleteShardGroup(d, c) ==             \* c = [db, rp, id]   K6
  LET di == DbIdx(d, c.db) IN
  IF di = 0 THEN Rej(d, "dbNotFound")
  ELSE LET ri == RpIdx(d.dbs[di], c.rp) IN
    IF ri = 0 THEN Rej(d, "rpNotFound")
    ELSE LET gs == d.dbs[di].rps[ri].groups IN
      IF \E g \in gs : g.id = c.id
      THEN Ok([d EXCEPT !.dbs[di].rps[ri].groups = {IF g.id = c.id THEN [g EXCEPT !.del = "fresh"] ELSE g : g \in gs}])
      ELSE Rej(d, "sgNotFound")

TruncGroup(g, t) ==
  IF t >= g.e \/ ~Live(g) \/ (g.tr # NoTrunc /\ g.tr < t) THEN g
  ELSE [g EXCEPT !.tr = IF t <= g.s THEN g.s ELSE t]
DoTruncateShardGroups(d, c) ==          \* c = [ts]
  Ok(MapGroups(d, LAMBDA gs : {TruncGroup(g, c.ts) : g \in gs}))

DoPruneShardGroups(d, c) ==             \* deleted more than ShardGroupDeletedExpiration (two weeks) ago
  Ok(MapGroups(d, LAMBDA gs : {g \in gs : g.del # "old"}))

\* environment: more than two weeks pass (not a command; the harness back-dates the deletion stamps)
AgeAll(d) == MapGroups(d, LAMBDA gs : {IF g.del = "fresh" THEN [g EXCEPT !.del = "old"] ELSE g : g \in gs})

ShardIdx(g, id) == FirstIdx(g.shards, LAMBDA s : s.id = id)
DropShardFrom(g, i) == [g EXCEPT !.shards = RemoveAt(@, i), !.del = IF Len(g.shards) = 1 THEN "fresh" ELSE @]

DoDropShard(d, c) ==                    \* c = [id]   K4
  Ok(MapGroups(d, LAMBDA gs : {IF ShardIdx(g, c.id) # 0 THEN DropShardFrom(g, ShardIdx(g, c.id)) ELSE g : g \in gs}))

CopyOwner(g, i, node) ==
  LET ow == g.shards[i].owners IN
  IF node \in Range(ow) THEN g
  ELSE LET p == FirstIdx(ow, LAMBDA x : x > node) IN
       [g EXCEPT !.shards[i].owners = IF p = 0 THEN Append(ow, node) ELSE InsertAt(ow, p, node)]
DoCopyShardOwner(d, c) ==               \* c = [id, node]   R2, K4
  IF c.node \notin DnIds(d) THEN Rej(d, "nodeNotFound")
  ELSE Ok(MapGroups(d, LAMBDA gs : {IF ShardIdx(g, c.id) # 0 THEN CopyOwner(g, ShardIdx(g, c.id), c.node) ELSE g : g \in gs}))

RemoveOwner(g, i, node) ==              \* K10
  LET ow  == g.shards[i].owners
      p   == FirstIdx(ow, LAMBDA x : x = node)
      ow2 == IF p = 0 THEN ow ELSE RemoveAt(ow, p) IN
  IF ow2 = <<>> THEN DropShardFrom(g, i) ELSE [g EXCEPT !.shards[i].owners = ow2]
DoRemoveShardOwner(d, c) ==             \* c = [id, node]
  Ok(MapGroups(d, LAMBDA gs : {IF ShardIdx(g, c.id) # 0 THEN RemoveOwner(g, ShardIdx(g, c.id), c.node) ELSE g : g \in gs}))

----------------------------------------------------------------------------
\* nodes
InsertNode(s, nd) ==                    \* append + sort.Sort by id (stable for these lengths)
  LET p == FirstIdx(s, LAMBDA x : x.id > nd.id) IN IF p = 0 THEN Append(s, nd) ELSE InsertAt(s, p, nd)

DoCreateDataNode(d, c) ==               \* c = [addr, tcp]   K8, R4
  IF \E i \in 1..Len(d.dn) : d.dn[i].tcp = c.tcp THEN Rej(d, "nodeExists")
  ELSE LET mi    == FirstIdx(d.mn, LAMBDA x : x.tcp = c.tcp)
           reuse == mi # 0 /\ d.mn[mi].id \notin DnIds(d)
           id    == IF reuse THEN d.mn[mi].id ELSE d.maxNode + 1 IN
       Ok([d EXCEPT !.maxNode = IF reuse THEN @ ELSE @ + 1,
                    !.dn = InsertNode(@, [id |-> id, addr |-> c.addr, tcp |-> c.tcp])])

DoUpdateDataNode(d, c) ==               \* c = [id, addr, tcp]
  LET i == DnIdx(d, c.id) IN
  IF i = 0 THEN Rej(d, "nodeNotFound")
  ELSE Ok([d EXCEPT !.dn[i].addr = c.addr, !.dn[i].tcp = c.tcp])

RECURSIVE Reassign(_, _, _)
\* orphans: indices (in shard order) of shards left without owner; freq: shards owned per candidate node
Reassign(shards, orphans, freq) ==
  IF orphans = <<>> THEN shards
  ELSE LET cand == DOMAIN freq
           n == CHOOSE x \in cand : \A y \in cand : freq[x] < freq[y] \/ (freq[x] = freq[y] /\ x <= y)   \* R1
       IN Reassign([shards EXCEPT ![Head(orphans)].owners = <<n>>], Tail(orphans), [freq EXCEPT ![n] = @ + 1])

StripNode(g, id) ==                     \* K9
  LET slots == UNION {{<<i, j>> : j \in 1..Len(g.shards[i].owners)} : i \in 1..Len(g.shards)}
      cnt(n) == Cardinality({p \in slots : g.shards[p[1]].owners[p[2]] = n})
      owners  == UNION {Range(g.shards[i].owners) : i \in 1..Len(g.shards)}
      sh2 == [i \in 1..Len(g.shards) |->
                LET p == LastIdx(g.shards[i].owners, LAMBDA x : x = id) IN
                IF p = 0 THEN g.shards[i] ELSE [g.shards[i] EXCEPT !.owners = RemoveAt(@, p)]]
      orph == SelectSeq([i \in 1..Len(sh2) |-> i], LAMBDA i : sh2[i].owners = <<>>)
  IN IF Len(g.shards) = 0 \/ Len(orph) = Len(g.shards) THEN [g EXCEPT !.shards = sh2, !.del = "fresh"]
     ELSE [g EXCEPT !.shards = Reassign(sh2, orph, [n \in owners \ {id} |-> cnt(n)])]

DoDeleteDataNode(d, c) ==               \* c = [id]
  IF c.id \notin DnIds(d) THEN Rej(d, "nodeNotFound")
  ELSE LET d1 == [d EXCEPT !.dn = SelectSeq(@, LAMBDA x : x.id # c.id)] IN
       Ok(MapGroups(d1, LAMBDA gs : {StripNode(g, c.id) : g \in gs}))

SetCluster(d, rand) == IF d.cluster = 0 THEN [d EXCEPT !.cluster = rand] ELSE d

CreateMeta(d, addr, tcp) ==             \* Data.CreateMetaNode; result [md, err]
  IF \E i \in 1..Len(d.mn) : d.mn[i].addr = addr THEN Rej(d, "nodeExists")
  ELSE LET di == FirstIdx(d.dn, LAMBDA x : x.tcp = tcp)
           id == IF di # 0 THEN d.dn[di].id ELSE d.maxNode + 1 IN
       Ok([d EXCEPT !.maxNode = IF di # 0 THEN @ ELSE @ + 1,
                    !.mn = InsertNode(@, [id |-> id, addr |-> addr, tcp |-> tcp])])

DoCreateMetaNode(d, c) ==               \* c = [addr, tcp, rand]   K7
  Ok(SetCluster(CreateMeta(d, c.addr, c.tcp).md, c.rand))

DoSetMetaNode(d, c) ==                  \* c = [addr, tcp, rand]   K7
  LET d1 == IF Len(d.mn) > 1 THEN d
            ELSE IF Len(d.mn) = 0 THEN CreateMeta(d, c.addr, c.tcp).md
            ELSE [d EXCEPT !.mn[1].addr = c.addr, !.mn[1].tcp = c.tcp] IN
  Ok(SetCluster(d1, c.rand))

DoDeleteMetaNode(d, c) ==               \* c = [id]
  IF MnIdx(d, c.id) = 0 THEN Rej(d, "nodeNotFound")
  ELSE IF c.id = 0 THEN Rej(d, "nodeIDRequired")
  ELSE Ok([d EXCEPT !.mn = SelectSeq(@, LAMBDA x : x.id # c.id)])

DoNoop(d, c) == Ok(d)                   \* UpdateNodeCommand, DeleteNodeCommand (pre-0.10, no-ops)

----------------------------------------------------------------------------
\* continuous queries, subscriptions
\* strings.ToLower(a) = strings.ToLower(b) for the query texts offered ("q1", "Q1", "q2")
CiEq(a, b) == a = b \/ <<a, b>> \in {<<"q1", "Q1">>, <<"Q1", "q1">>}

DoCreateContinuousQuery(d, c) ==        \* c = [db, name, q]   K11
  LET di == DbIdx(d, c.db) IN
  IF di = 0 THEN Rej(d, "dbNotFound")
  ELSE LET i == FirstIdx(d.dbs[di].cqs, LAMBDA x : x.name = c.name) IN
    IF i # 0 THEN (IF CiEq(d.dbs[di].cqs[i].q, c.q) THEN Ok(d) ELSE Rej(d, "cqExists"))
    ELSE Ok([d EXCEPT !.dbs[di].cqs = Append(@, [name |-> c.name, q |-> c.q])])

DoDropContinuousQuery(d, c) ==          \* c = [db, name]   K4
  LET di == DbIdx(d, c.db) IN
  IF di = 0 THEN Ok(d)
  ELSE LET i == FirstIdx(d.dbs[di].cqs, LAMBDA x : x.name = c.name) IN
       IF i = 0 THEN Ok(d) ELSE Ok([d EXCEPT !.dbs[di].cqs = RemoveAt(@, i)])

BadDests == {"bad"}                     \* destination sets containing an invalid URL
DoCreateSubscription(d, c) ==           \* c = [db, rp, name, mode, dests]   K11
  IF c.dests \in BadDests THEN Rej(d, "invalidSubURL")
  ELSE LET di == DbIdx(d, c.db) IN
    IF di = 0 THEN Rej(d, "dbNotFound")
    ELSE LET ri == RpIdx(d.dbs[di], c.rp) IN
      IF ri = 0 THEN Rej(d, "rpNotFound")
      ELSE IF \E i \in 1..Len(d.dbs[di].rps[ri].subs) : d.dbs[di].rps[ri].subs[i].name = c.name THEN Rej(d, "subExists")
      ELSE Ok([d EXCEPT !.dbs[di].rps[ri].subs = Append(@, [name |-> c.name, mode |-> c.mode, dests |-> c.dests])])

DoDropSubscription(d, c) ==             \* c = [db, rp, name]
  LET di == DbIdx(d, c.db) IN
  IF di = 0 THEN Rej(d, "dbNotFound")
  ELSE LET ri == RpIdx(d.dbs[di], c.rp) IN
    IF ri = 0 THEN Rej(d, "rpNotFound")
    ELSE LET i == FirstIdx(d.dbs[di].rps[ri].subs, LAMBDA x : x.name = c.name) IN
      IF i = 0 THEN Rej(d, "subNotFound") ELSE Ok([d EXCEPT !.dbs[di].rps[ri].subs = RemoveAt(@, i)])

----------------------------------------------------------------------------
\* users
DoCreateUser(d, c) ==                   \* c = [name, hash, admin]
  IF c.name = "" THEN Rej(d, "usernameRequired")
  ELSE IF UserIdx(d, c.name) # 0 THEN Rej(d, "userExists")
  ELSE Ok([d EXCEPT !.users = Append(@, [name |-> c.name, hash |-> c.hash, admin |-> c.admin, privs |-> {}])])

DoDropUser(d, c) ==                     \* c = [name]
  LET i == UserIdx(d, c.name) IN IF i = 0 THEN Rej(d, "userNotFound") ELSE Ok([d EXCEPT !.users = RemoveAt(@, i)])

DoUpdateUser(d, c) ==                   \* c = [name, hash]
  LET i == UserIdx(d, c.name) IN IF i = 0 THEN Rej(d, "userNotFound") ELSE Ok([d EXCEPT !.users[i].hash = c.hash])

DoSetPrivilege(d, c) ==                 \* c = [user, db, p]
  LET i == UserIdx(d, c.user) IN
  IF i = 0 THEN Rej(d, "userNotFound")
  ELSE IF DbIdx(d, c.db) = 0 THEN Rej(d, "dbNotFound")
  ELSE Ok([d EXCEPT !.users[i].privs = {p \in @ : p.db # c.db} \cup {[db |-> c.db, p |-> c.p]}])

DoSetAdminPrivilege(d, c) ==            \* c = [user, admin]
  LET i == UserIdx(d, c.user) IN
  IF i = 0 THEN Rej(d, "userNotFound") ELSE Ok([d EXCEPT !.users[i].admin = c.admin])

AdminExists(d) == \E i \in 1..Len(d.users) : d.users[i].admin     \* Data.AdminUserExists (cached in the code)

----------------------------------------------------------------------------
\* argument domains (per command type; ids range over the known ones plus one unknown)
RpSpecs == [name : RpN \cup LongNames, rf : RFs, dur : Durs, sgd : SGDs]
DummyRp == [name |-> "", rf |-> 0, dur |-> 0, sgd |-> 0]
DbNames == DbN \cup LongNames
GroupIds(d) == 1..(d.maxSG + 1)
ShardIds(d) == 1..(d.maxShard + 1)
NodeIds(d)  == 0..(d.maxNode + 1)

ArgsCreateDatabase(d) == [name : DbNames, hasRp : {TRUE}, rp : RpSpecs] \cup [name : DbNames, hasRp : {FALSE}, rp : {DummyRp}]
ArgsDropDatabase(d) == [name : DbN]
ArgsCreateRetentionPolicy(d) == [db : DbN, rp : RpSpecs, def : BOOLEAN]
ArgsDropRetentionPolicy(d) == [db : DbN, name : RpN]
ArgsUpdateRetentionPolicy(d) ==
  [db : DbN, name : RpN, newName : UpdNames, dur : UpdDurs, rf : UpdRFs, sgd : UpdSGDs, def : BOOLEAN]
ArgsCreateShardGroup(d) == [db : DbN, rp : RpN, ts : Times, ix : Ixs]
ArgsDeleteShardGroup(d) == [db : DbN, rp : RpN, id : GroupIds(d)]
ArgsTruncateShardGroups(d) == [ts : Times]
ArgsPruneShardGroups(d) == {[x |-> 0]}
ArgsDropShard(d) == [id : ShardIds(d)]
ArgsCopyShardOwner(d) == [id : ShardIds(d), node : NodeIds(d)]
ArgsRemoveShardOwner(d) == [id : ShardIds(d), node : NodeIds(d)]
AddrPairs == IF SameAddr THEN {[addr |-> a, tcp |-> a] : a \in Addrs} ELSE [addr : Addrs, tcp : Addrs]
ArgsCreateDataNode(d) == AddrPairs
ArgsUpdateDataNode(d) == {[id |-> i, addr |-> p.addr, tcp |-> p.tcp] : i \in NodeIds(d), p \in AddrPairs}
ArgsDeleteDataNode(d) == [id : NodeIds(d)]
ArgsCreateMetaNode(d) == {[addr |-> p.addr, tcp |-> p.tcp, rand |-> r] : p \in AddrPairs, r \in Rands}
ArgsSetMetaNode(d) == ArgsCreateMetaNode(d)
ArgsDeleteMetaNode(d) == [id : NodeIds(d)]
ArgsNoop(d) == {[x |-> 0]}
ArgsCreateContinuousQuery(d) == [db : DbN, name : ObjN, q : Queries]
ArgsDropContinuousQuery(d) == [db : DbN, name : ObjN]
ArgsCreateSubscription(d) == [db : DbN, rp : RpN, name : ObjN, mode : Modes, dests : DestSets]
ArgsDropSubscription(d) == [db : DbN, rp : RpN, name : ObjN]
ArgsCreateUser(d) == [name : ObjN, hash : Hashes, admin : BOOLEAN]
ArgsDropUser(d) == [name : ObjN]
ArgsUpdateUser(d) == [name : ObjN, hash : Hashes]
ArgsSetPrivilege(d) == [user : ObjN, db : DbN, p : Privs]
ArgsSetAdminPrivilege(d) == [user : ObjN, admin : BOOLEAN]

----------------------------------------------------------------------------
\* base values for configurations that start in the middle (built with the command operators, so reachable)
BaseRp(rf, sgd) == DoCreateDatabase(Empty, [name |-> "a", hasRp |-> TRUE, rp |-> [name |-> "p", rf |-> rf, dur |-> 0, sgd |-> sgd]]).md
WithNodes(d, n) ==
  LET RECURSIVE W(_, _)
      W(x, i) == IF i > n THEN x ELSE W(DoCreateDataNode(x, [addr |-> "h" \o ToString(i), tcp |-> "h" \o ToString(i)]).md, i + 1)
  IN W(d, 1)
InitMd ==
  CASE InitKind = "empty" -> Empty
    [] InitKind = "rp1"   -> BaseRp(1, 2 * Hour)
    [] InitKind = "rp2"   -> BaseRp(2, 2 * Hour)
    [] InitKind = "rp2n3" -> WithNodes(BaseRp(2, 2 * Hour), 3)
    [] InitKind = "rp1n2" -> WithNodes(BaseRp(1, 2 * Hour), 2)
    [] InitKind = "rp1n1" -> WithNodes(BaseRp(1, 2 * Hour), 1)
Init == md = InitMd

On(t) == t \in Cmds
Step(r) == md' = r.md

Next ==
  \/ On("CreateDatabase") /\ \E c \in ArgsCreateDatabase(md) : Step(DoCreateDatabase(md, c))
  \/ On("DropDatabase") /\ \E c \in ArgsDropDatabase(md) : Step(DoDropDatabase(md, c))
  \/ On("CreateRetentionPolicy") /\ \E c \in ArgsCreateRetentionPolicy(md) : Step(DoCreateRetentionPolicy(md, c))
  \/ On("DropRetentionPolicy") /\ \E c \in ArgsDropRetentionPolicy(md) : Step(DoDropRetentionPolicy(md, c))
  \/ On("UpdateRetentionPolicy") /\ \E c \in ArgsUpdateRetentionPolicy(md) : Step(DoUpdateRetentionPolicy(md, c))
  \/ On("CreateShardGroup") /\ \E c \in ArgsCreateShardGroup(md) : Step(DoCreateShardGroup(md, c))
  \/ On("DeleteShardGroup") /\ \E c \in ArgsDeleteShardGroup(md) : Step(DoDeleteShardGroup(md, c))
  \/ On("TruncateShardGroups") /\ \E c \in ArgsTruncateShardGroups(md) : Step(DoTruncateShardGroups(md, c))
  \/ On("PruneShardGroups") /\ \E c \in ArgsPruneShardGroups(md) : Step(DoPruneShardGroups(md, c))
  \/ On("Age") /\ md' = AgeAll(md)
  \/ On("DropShard") /\ \E c \in ArgsDropShard(md) : Step(DoDropShard(md, c))
  \/ On("CopyShardOwner") /\ \E c \in ArgsCopyShardOwner(md) : Step(DoCopyShardOwner(md, c))
  \/ On("RemoveShardOwner") /\ \E c \in ArgsRemoveShardOwner(md) : Step(DoRemoveShardOwner(md, c))
  \/ On("CreateDataNode") /\ \E c \in ArgsCreateDataNode(md) : Step(DoCreateDataNode(md, c))
  \/ On("UpdateDataNode") /\ \E c \in ArgsUpdateDataNode(md) : Step(DoUpdateDataNode(md, c))
  \/ On("DeleteDataNode") /\ \E c \in ArgsDeleteDataNode(md) : Step(DoDeleteDataNode(md, c))
  \/ On("CreateMetaNode") /\ \E c \in ArgsCreateMetaNode(md) : Step(DoCreateMetaNode(md, c))
  \/ On("SetMetaNode") /\ \E c \in ArgsSetMetaNode(md) : Step(DoSetMetaNode(md, c))
  \/ On("DeleteMetaNode") /\ \E c \in ArgsDeleteMetaNode(md) : Step(DoDeleteMetaNode(md, c))
  \/ On("CreateContinuousQuery") /\ \E c \in ArgsCreateContinuousQuery(md) : Step(DoCreateContinuousQuery(md, c))
  \/ On("DropContinuousQuery") /\ \E c \in ArgsDropContinuousQuery(md) : Step(DoDropContinuousQuery(md, c))
  \/ On("CreateSubscription") /\ \E c \in ArgsCreateSubscription(md) : Step(DoCreateSubscription(md, c))
  \/ On("DropSubscription") /\ \E c \in ArgsDropSubscription(md) : Step(DoDropSubscription(md, c))
  \/ On("CreateUser") /\ \E c \in ArgsCreateUser(md) : Step(DoCreateUser(md, c))
  \/ On("DropUser") /\ \E c \in ArgsDropUser(md) : Step(DoDropUser(md, c))
  \/ On("UpdateUser") /\ \E c \in ArgsUpdateUser(md) : Step(DoUpdateUser(md, c))
  \/ On("SetPrivilege") /\ \E c \in ArgsSetPrivilege(md) : Step(DoSetPrivilege(md, c))
  \/ On("SetAdminPrivilege") /\ \E c \in ArgsSetAdminPrivilege(md) : Step(DoSetAdminPrivilege(md, c))

Spec == Init /\ [][Next]_vars

\* every growing value is bounded here
Bounded ==
  /\ md.maxNode <= MaxNodeId /\ md.maxSG <= MaxGroupId /\ md.maxShard <= MaxShardId
  /\ Len(md.dbs) <= MaxDbs /\ Len(md.users) <= MaxUsers /\ Len(md.mn) <= MaxMeta
  /\ \A i \in 1..Len(md.dbs) :
       /\ Len(md.dbs[i].rps) <= MaxRps /\ Len(md.dbs[i].cqs) <= MaxCqs
       /\ \A j \in 1..Len(md.dbs[i].rps) : Len(md.dbs[i].rps[j].subs) <= MaxSubs

----------------------------------------------------------------------------
\* invariants (from the property text)
IsNode(n) == n.id \in 1..(MaxNodeId + 1) /\ n.addr \in Addrs /\ n.tcp \in Addrs
IsGroup(g) ==
  /\ g.id \in 1..(MaxGroupId + 1) /\ g.s \in Int /\ g.e \in Int /\ g.s < g.e
  /\ g.del \in {"no", "fresh", "old"}
  /\ (g.tr = NoTrunc \/ (g.s <= g.tr /\ g.tr < g.e))
  /\ \A i \in 1..Len(g.shards) : g.shards[i].id \in 1..(MaxShardId + 4) /\ \A j \in 1..Len(g.shards[i].owners) : g.shards[i].owners[j] \in Nat
TypeOK ==
  /\ \A i \in 1..Len(md.dn) : IsNode(md.dn[i])
  /\ \A i \in 1..Len(md.mn) : IsNode(md.mn[i])
  /\ \A i \in 1..(Len(md.dn) - 1) : md.dn[i].id <= md.dn[i+1].id
  /\ md.maxNode \in Nat /\ md.maxSG \in Nat /\ md.maxShard \in Nat /\ md.cluster \in Rands \cup {0}
  /\ \A i \in 1..Len(md.dbs) :
       /\ md.dbs[i].name \in Names \ {""}
       /\ \A k \in 1..Len(md.dbs) : k # i => md.dbs[k].name # md.dbs[i].name
       /\ \A j \in 1..Len(md.dbs[i].rps) :
            LET rp == md.dbs[i].rps[j] IN
            /\ rp.rf \in Nat /\ rp.sgd >= MinDur /\ rp.dur >= 0
            /\ \A g \in rp.groups : IsGroup(g)
  /\ \A i \in 1..Len(md.users) :
       /\ md.users[i].name \in Names \ {""} /\ md.users[i].admin \in BOOLEAN
       /\ \A k \in 1..Len(md.users) : k # i => md.users[k].name # md.users[i].name
       /\ \A p \in md.users[i].privs : DbIdx(md, p.db) # 0

\* live shard groups of one policy cover pairwise disjoint ranges (the truncation time is the end of a truncated group)
DisjointIn(gs) ==
  \A g1, g2 \in {g \in gs : Live(g)} : g1 # g2 => ~(Max2(g1.s, g2.s) < Min2(EffEnd(g1), EffEnd(g2)))
C06_LiveGroupsDisjoint == \A p \in AllRps(md) : DisjointIn(md.dbs[p[1]].rps[p[2]].groups)

\* ids are unique and were handed out by the counters
C06_IdsUnique ==
  /\ \A g1, g2 \in AllGroups(md) : g1 # g2 => g1.id # g2.id
  /\ \A g \in AllGroups(md) : g.id <= md.maxSG
  /\ \A g1, g2 \in AllGroups(md) : \A i \in 1..Len(g1.shards), j \in 1..Len(g2.shards) :
        (g1 # g2 \/ i # j) => g1.shards[i].id # g2.shards[j].id
  /\ \A id \in AllShardIds(md) : id <= md.maxShard
  /\ \A p1, p2 \in AllRps(md) : p1 # p2 => md.dbs[p1[1]].rps[p1[2]].groups \cap md.dbs[p2[1]].rps[p2[2]].groups = {}

\* ... and never reused: counters never go back, anything new is numbered above the old counter
IdsStep(a, b) ==
  /\ b.maxSG >= a.maxSG /\ b.maxShard >= a.maxShard /\ b.maxNode >= a.maxNode
  /\ \A g \in AllGroups(b) : (g.id \notin {h.id : h \in AllGroups(a)}) => g.id > a.maxSG
  /\ \A id \in AllShardIds(b) \ AllShardIds(a) : id > a.maxShard
C06_IdsUniqueNeverReused == [][IdsStep(md, md')]_vars

\* each shard of a newly created group: min(RF, #nodes) distinct existing data nodes, spread evenly
NewGroupOK(a, b, g, rf) ==
  LET n == Len(b.dn)
      k == Min2(Max2(rf, 1), n)
      load(x) == Cardinality({i \in 1..Len(g.shards) : x \in Range(g.shards[i].owners)}) IN
  /\ Len(g.shards) >= 1
  /\ \A i \in 1..Len(g.shards) :
       /\ Len(g.shards[i].owners) = k
       /\ Cardinality(Range(g.shards[i].owners)) = k
       /\ Range(g.shards[i].owners) \subseteq DnIds(b)
  /\ Cardinality(DnIds(b)) = n
  /\ \A x, y \in DnIds(b) : load(x) = load(y)
NewGroupsStep(a, b) ==
  \A p \in AllRps(b) : \A g \in b.dbs[p[1]].rps[p[2]].groups :
     g.id > a.maxSG => NewGroupOK(a, b, g, b.dbs[p[1]].rps[p[2]].rf)
C06_NewGroupOwners == [][NewGroupsStep(md, md')]_vars

\* no shard is owned by a node that is not (any more) a data node
C06_NoRemovedOwner ==
  \A g \in AllGroups(md) : \A i \in 1..Len(g.shards) : Range(g.shards[i].owners) \subseteq DnIds(md)

\* a rejected command changes nothing (all commands of the configuration, evaluated in every reachable state)
RejOK(r) == r.err # "ok" => r.md = md
C06_RejectedChangesNothing ==
  /\ On("CreateDatabase") => \A c \in ArgsCreateDatabase(md) : RejOK(DoCreateDatabase(md, c))
  /\ On("CreateRetentionPolicy") => \A c \in ArgsCreateRetentionPolicy(md) : RejOK(DoCreateRetentionPolicy(md, c))
  /\ On("UpdateRetentionPolicy") => \A c \in ArgsUpdateRetentionPolicy(md) : RejOK(DoUpdateRetentionPolicy(md, c))
  /\ On("CreateShardGroup") => \A c \in ArgsCreateShardGroup(md) : RejOK(DoCreateShardGroup(md, c))
  /\ On("DeleteShardGroup") => \A c \in ArgsDeleteShardGroup(md) : RejOK(DoDeleteShardGroup(md, c))
  /\ On("CopyShardOwner") => \A c \in ArgsCopyShardOwner(md) : RejOK(DoCopyShardOwner(md, c))
  /\ On("CreateDataNode") => \A c \in ArgsCreateDataNode(md) : RejOK(DoCreateDataNode(md, c))
  /\ On("UpdateDataNode") => \A c \in ArgsUpdateDataNode(md) : RejOK(DoUpdateDataNode(md, c))
  /\ On("DeleteDataNode") => \A c \in ArgsDeleteDataNode(md) : RejOK(DoDeleteDataNode(md, c))
  /\ On("DeleteMetaNode") => \A c \in ArgsDeleteMetaNode(md) : RejOK(DoDeleteMetaNode(md, c))
  /\ On("CreateContinuousQuery") => \A c \in ArgsCreateContinuousQuery(md) : RejOK(DoCreateContinuousQuery(md, c))
  /\ On("CreateSubscription") => \A c \in ArgsCreateSubscription(md) : RejOK(DoCreateSubscription(md, c))
  /\ On("DropSubscription") => \A c \in ArgsDropSubscription(md) : RejOK(DoDropSubscription(md, c))
  /\ On("CreateUser") => \A c \in ArgsCreateUser(md) : RejOK(DoCreateUser(md, c))
  /\ On("DropUser") => \A c \in ArgsDropUser(md) : RejOK(DoDropUser(md, c))
  /\ On("UpdateUser") => \A c \in ArgsUpdateUser(md) : RejOK(DoUpdateUser(md, c))
  /\ On("SetPrivilege") => \A c \in ArgsSetPrivilege(md) : RejOK(DoSetPrivilege(md, c))
  /\ On("SetAdminPrivilege") => \A c \in ArgsSetAdminPrivilege(md) : RejOK(DoSetAdminPrivilege(md, c))

\* data node ids are unique (needed by C06_NewGroupOwners: "distinct existing data nodes")
C06_DataNodeIdsUnique == Cardinality(DnIds(md)) = Len(md.dn)
=============================================================================
