---------------------------- MODULE MetaDataGen ----------------------------
(* Command-log generator for replay on real storeFSM replicas (harness/meta).       *)
(* One step = one raft.Log entry handed to storeFSM.Apply ("Age" is the only        *)
(* environment step: more than two weeks pass).  Every step carries the command,    *)
(* the raft index of the entry, the model's error class and the model's value       *)
(* after the step.                                                                  *)
(*  Sim = TRUE : random walk (tlc -simulate); the command type is drawn from a      *)
(*               weighted bag, then the arguments uniformly from the type's domain. *)
(*  Sim = FALSE: BFS with hist in the state: every command sequence of length       *)
(*               GenLen - Len(prefix) over the configured domains after each prefix.*)
EXTENDS MetaData, Json

CONSTANTS GenLen, Sim, Gaps, Prefixes
VARIABLES hist, ridx      \* ridx = raft index of the last applied entry (newStore starts at 1)
gvars == <<md, hist, ridx>>

St(d) == d @@ [adminExists |-> AdminExists(d)]

Dispatch(d, t, c) ==
  CASE t = "CreateDatabase" -> DoCreateDatabase(d, c)
    [] t = "DropDatabase" -> DoDropDatabase(d, c)
    [] t = "CreateRetentionPolicy" -> DoCreateRetentionPolicy(d, c)
    [] t = "DropRetentionPolicy" -> DoDropRetentionPolicy(d, c)
    [] t = "UpdateRetentionPolicy" -> DoUpdateRetentionPolicy(d, c)
    [] t = "CreateShardGroup" -> DoCreateShardGroup(d, c)
    [] t = "DeleteShardGroup" -> DoDeleteShardGroup(d, c)
    [] t = "TruncateShardGroups" -> DoTruncateShardGroups(d, c)
    [] t = "PruneShardGroups" -> DoPruneShardGroups(d, c)
    [] t = "Age" -> Ok(AgeAll(d))
    [] t = "DropShard" -> DoDropShard(d, c)
    [] t = "CopyShardOwner" -> DoCopyShardOwner(d, c)
    [] t = "RemoveShardOwner" -> DoRemoveShardOwner(d, c)
    [] t = "CreateDataNode" -> DoCreateDataNode(d, c)
    [] t = "UpdateDataNode" -> DoUpdateDataNode(d, c)
    [] t = "DeleteDataNode" -> DoDeleteDataNode(d, c)
    [] t = "CreateMetaNode" -> DoCreateMetaNode(d, c)
    [] t = "SetMetaNode" -> DoSetMetaNode(d, c)
    [] t = "DeleteMetaNode" -> DoDeleteMetaNode(d, c)
    [] t = "UpdateNode" -> DoNoop(d, c)
    [] t = "DeleteNode" -> DoNoop(d, c)
    [] t = "CreateContinuousQuery" -> DoCreateContinuousQuery(d, c)
    [] t = "DropContinuousQuery" -> DoDropContinuousQuery(d, c)
    [] t = "CreateSubscription" -> DoCreateSubscription(d, c)
    [] t = "DropSubscription" -> DoDropSubscription(d, c)
    [] t = "CreateUser" -> DoCreateUser(d, c)
    [] t = "DropUser" -> DoDropUser(d, c)
    [] t = "UpdateUser" -> DoUpdateUser(d, c)
    [] t = "SetPrivilege" -> DoSetPrivilege(d, c)
    [] t = "SetAdminPrivilege" -> DoSetAdminPrivilege(d, c)

ArgsOf(d, t) ==
  CASE t = "CreateDatabase" -> ArgsCreateDatabase(d)
    [] t = "DropDatabase" -> ArgsDropDatabase(d)
    [] t = "CreateRetentionPolicy" -> ArgsCreateRetentionPolicy(d)
    [] t = "DropRetentionPolicy" -> ArgsDropRetentionPolicy(d)
    [] t = "UpdateRetentionPolicy" -> ArgsUpdateRetentionPolicy(d)
    [] t = "CreateShardGroup" -> ArgsCreateShardGroup(d)
    [] t = "DeleteShardGroup" -> ArgsDeleteShardGroup(d)
    [] t = "TruncateShardGroups" -> ArgsTruncateShardGroups(d)
    [] t = "PruneShardGroups" -> ArgsPruneShardGroups(d)
    [] t = "Age" -> ArgsNoop(d)
    [] t = "DropShard" -> ArgsDropShard(d)
    [] t = "CopyShardOwner" -> ArgsCopyShardOwner(d)
    [] t = "RemoveShardOwner" -> ArgsRemoveShardOwner(d)
    [] t = "CreateDataNode" -> ArgsCreateDataNode(d)
    [] t = "UpdateDataNode" -> ArgsUpdateDataNode(d)
    [] t = "DeleteDataNode" -> ArgsDeleteDataNode(d)
    [] t = "CreateMetaNode" -> ArgsCreateMetaNode(d)
    [] t = "SetMetaNode" -> ArgsSetMetaNode(d)
    [] t = "DeleteMetaNode" -> ArgsDeleteMetaNode(d)
    [] t = "UpdateNode" -> ArgsNoop(d)
    [] t = "DeleteNode" -> ArgsNoop(d)
    [] t = "CreateContinuousQuery" -> ArgsCreateContinuousQuery(d)
    [] t = "DropContinuousQuery" -> ArgsDropContinuousQuery(d)
    [] t = "CreateSubscription" -> ArgsCreateSubscription(d)
    [] t = "DropSubscription" -> ArgsDropSubscription(d)
    [] t = "CreateUser" -> ArgsCreateUser(d)
    [] t = "DropUser" -> ArgsDropUser(d)
    [] t = "UpdateUser" -> ArgsUpdateUser(d)
    [] t = "SetPrivilege" -> ArgsSetPrivilege(d)
    [] t = "SetAdminPrivilege" -> ArgsSetAdminPrivilege(d)

\* weights of the random walk: building blocks and the shard-group algebra more often than the rest
Bag == << "CreateDatabase", "CreateDatabase", "CreateDatabase", "DropDatabase",
          "CreateRetentionPolicy", "CreateRetentionPolicy", "CreateRetentionPolicy", "DropRetentionPolicy",
          "UpdateRetentionPolicy", "UpdateRetentionPolicy",
          "CreateShardGroup", "CreateShardGroup", "CreateShardGroup", "CreateShardGroup", "CreateShardGroup", "CreateShardGroup",
          "DeleteShardGroup", "TruncateShardGroups", "TruncateShardGroups", "PruneShardGroups", "Age",
          "DropShard", "CopyShardOwner", "CopyShardOwner", "RemoveShardOwner", "RemoveShardOwner",
          "CreateDataNode", "CreateDataNode", "CreateDataNode", "UpdateDataNode", "DeleteDataNode", "DeleteDataNode",
          "CreateMetaNode", "SetMetaNode", "DeleteMetaNode", "UpdateNode", "DeleteNode",
          "CreateContinuousQuery", "CreateContinuousQuery", "DropContinuousQuery",
          "CreateSubscription", "CreateSubscription", "DropSubscription",
          "CreateUser", "CreateUser", "DropUser", "UpdateUser", "SetPrivilege", "SetPrivilege", "SetAdminPrivilege" >>
EnabledBag == SelectSeq(Bag, LAMBDA t : t \in Cmds)
AllTypes == {Bag[i] : i \in 1..Len(Bag)} \cap Cmds

\* the previous entry's index is what CreateShardGroup sees in Data.Index
Fix(t, c, ix) == IF t = "CreateShardGroup" THEN [c EXCEPT !.ix = ix] ELSE c

Rec(t, c, idx, r) == [a |-> t, c |-> c, idx |-> idx, err |-> r.err, st |-> St(r.md)]

GStep(t, c0) ==
  LET c == Fix(t, c0, ridx)
      r == Dispatch(md, t, c) IN
  /\ md' = r.md
  /\ \E g \in (IF t = "Age" THEN {0} ELSE IF Sim THEN {RandomElement(Gaps)} ELSE {1}) :
       /\ ridx' = ridx + g
       /\ hist' = Append(hist, Rec(t, c, ridx + g, r))

GNext ==
  /\ Len(hist) < GenLen
  /\ \E t \in (IF Sim THEN {EnabledBag[RandomElement(1..Len(EnabledBag))]} ELSE AllTypes) :
       \E c \in (IF Sim THEN {RandomElement(ArgsOf(md, t))} ELSE ArgsOf(md, t)) : GStep(t, c)

----------------------------------------------------------------------------
\* prefixes: fixed command lists that lead into the interesting part of the state space
CDN(a) == [a |-> "CreateDataNode", c |-> [addr |-> a, tcp |-> a]]
CDB(n, rp, rf, dur, sgd) == [a |-> "CreateDatabase", c |-> [name |-> n, hasRp |-> TRUE, rp |-> [name |-> rp, rf |-> rf, dur |-> dur, sgd |-> sgd]]]
CSG(db, rp, ts) == [a |-> "CreateShardGroup", c |-> [db |-> db, rp |-> rp, ts |-> ts, ix |-> 0]]
CRP(db, rp, rf, dur, sgd, def) == [a |-> "CreateRetentionPolicy", c |-> [db |-> db, rp |-> [name |-> rp, rf |-> rf, dur |-> dur, sgd |-> sgd], def |-> def]]
TRN(ts) == [a |-> "TruncateShardGroups", c |-> [ts |-> ts]]
CMN(a, r) == [a |-> "CreateMetaNode", c |-> [addr |-> a, tcp |-> a, rand |-> r]]
CUS(n, adm) == [a |-> "CreateUser", c |-> [name |-> n, hash |-> "x", admin |-> adm]]
CSU(db, rp, n) == [a |-> "CreateSubscription", c |-> [db |-> db, rp |-> rp, name |-> n, mode |-> "ALL", dests |-> "d1"]]
CCQ(db, n, qq) == [a |-> "CreateContinuousQuery", c |-> [db |-> db, name |-> n, q |-> qq]]
DSG(db, rp, id) == [a |-> "DeleteShardGroup", c |-> [db |-> db, rp |-> rp, id |-> id]]
AGE == [a |-> "Age", c |-> [x |-> 0]]

PrefixSeq(p) ==
  CASE p = "empty"  -> <<>>
    [] p = "n3rf1"  -> <<CDN("h1"), CDN("h2"), CDN("h3"), CDB("a", "p", 1, 0, 2 * Hour), CSG("a", "p", 0)>>
    [] p = "n3rf2"  -> <<CDN("h1"), CDN("h2"), CDN("h3"), CDB("a", "p", 2, 0, 2 * Hour), CSG("a", "p", 1), CSG("a", "p", 5)>>
    [] p = "n2rf2"  -> <<CDN("h1"), CDN("h2"), CDB("a", "p", 2, 0, 3 * Hour), CSG("a", "p", 2)>>
    [] p = "n3rf3"  -> <<CDN("h1"), CDN("h2"), CDN("h3"), CDB("a", "p", 3, 0, 2 * Hour), CRP("a", "q", 1, 0, Hour, FALSE), CSG("a", "p", 0), CSG("a", "q", 3)>>
    [] p = "trunc"  -> <<CDN("h1"), CDN("h2"), CDB("a", "p", 1, 0, 4 * Hour), CSG("a", "p", 0), TRN(3), CSG("a", "p", 4)>>
    [] p = "trunc0" -> <<CDN("h1"), CDN("h2"), CDB("a", "p", 1, 0, 2 * Hour), CSG("a", "p", 1), TRN(0)>>
    [] p = "aged"   -> <<CDN("h1"), CDN("h2"), CDB("a", "p", 1, 0, 2 * Hour), CSG("a", "p", 0), CSG("a", "p", 4), DSG("a", "p", 1), DSG("a", "p", 2), AGE>>
    [] p = "aged1"  -> <<CDN("h1"), CDN("h2"), CDB("a", "p", 2, 0, 2 * Hour), CSG("a", "p", 0), CSG("a", "p", 4), DSG("a", "p", 1), AGE, TRN(5)>>
    [] p = "meta"   -> <<CMN("h1", 7), CDN("h1"), CDN("h2"), CDB("a", "p", 2, 0, Hour)>>
    [] p = "acct"   -> <<CDB("a", "p", 1, 0, Hour), CDB("b", "p", 1, 0, Hour), CUS("a", TRUE), CUS("b", FALSE), CSU("a", "p", "a"), CCQ("a", "a", "q1")>>

RECURSIVE RunPrefix(_, _, _, _, _)
\* rx = raft index of the last applied entry ("Age" is not an entry)
RunPrefix(d, h, i, p, rx) ==
  IF i > Len(p) THEN [md |-> d, hist |-> h, ridx |-> rx]
  ELSE LET c  == Fix(p[i].a, p[i].c, rx)
           r  == Dispatch(d, p[i].a, c)
           nx == IF p[i].a = "Age" THEN rx ELSE rx + 1
       IN RunPrefix(r.md, Append(h, Rec(p[i].a, c, nx, r)), i + 1, p, nx)

GInit ==
  \E p \in Prefixes :
    LET r == RunPrefix(Empty, <<>>, 1, PrefixSeq(p), 1) IN
    /\ md = r.md /\ hist = r.hist /\ ridx = r.ridx

GSpec == GInit /\ [][GNext]_gvars

Emit == (Len(hist) = GenLen) => PrintT(<<"BEHAVIOUR", ToJson(hist)>>)
=============================================================================
