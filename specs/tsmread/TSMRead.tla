------------------------------ MODULE TSMRead ------------------------------
(* Read side of one tsm1 shard (properties C02 and the engine-level half of C09).          *)
(*                                                                                        *)
(* Logical layers, oldest to newest, exactly the ones the real read path merges:           *)
(*   files : the FileStore's TSM files ordered by (generation, sequence); every file is    *)
(*           immutable content  key -> time -> value  plus tombstoned times per key        *)
(*           (tsm1.FileStore.files, TSMReader + Tombstoner);                               *)
(*   snap  : the cache snapshot being flushed (tsm1.Cache.snapshot), `snapActive` says a   *)
(*           flush is in flight (Cache.snapshotting); a failed flush leaves the snapshot   *)
(*           in place for a retry (Cache.ClearSnapshot(false));                            *)
(*   cache : the hot store (tsm1.Cache.store).                                             *)
(* Read(k, lo, hi, dir) is what Shard.CreateIterator / CreateCursorIterator must return.   *)
(* `acked` is the history variable of the property: the last acknowledged value per        *)
(* (key, time) minus completed deletes.                                                    *)
(*                                                                                        *)
(* One action per API call of the engine that the replay harness issues sequentially:      *)
(*   Write (Shard.WritePoints), SnapshotBegin / SnapshotInstall / SnapshotFail             *)
(*   (Engine.WriteSnapshot split at the point where it drops the engine lock), Compact     *)
(*   (Compactor.CompactFull|CompactFast + FileStore.ReplaceWithCallback on a run of        *)
(*   adjacent files, as the planner selects them), CompactAbort, DeleteRange               *)
(*   (Shard.DeleteSeriesRange), Reopen (Shard.Close + Open: WAL replay).                   *)
EXTENDS Integers, Sequences, FiniteSets, TLC

CONSTANTS Keys,        \* set of strings (series-field keys)
          MaxT,        \* times are 0..MaxT
          Vals,        \* set of abstract values (small integers)
          MaxFiles,    \* bound on Len(files)
          MaxBatch,    \* points per write batch
          MaxWrites, MaxSnaps, MaxCompacts, MaxDeletes, MaxReopens, MaxFails

None == -1
Time == 0..MaxT
Modes == {"fast", "full", "optimize"}

VARIABLES files, snap, snapActive, cache, acked, cnt

vars == <<files, snap, snapActive, cache, acked, cnt>>

Row   == [Time -> Vals \cup {None}]
Layer == [Keys -> Row]
EmptyLayer == [k \in Keys |-> [t \in Time |-> None]]
NoTomb == [k \in Keys |-> {}]
FileT == [data : Layer, tomb : [Keys -> SUBSET Time]]
Point == [k : Keys, t : Time, v : Vals]
\* (with a parameter: TLC pre-computes zero-arity constant definitions, the generator uses a large MaxBatch)
Batches(m) == UNION {[1..n -> Point] : n \in 1..m}

-----------------------------------------------------------------------------
\* later layer wins where it has a value
Over(lo, hi) == [k \in Keys |-> [t \in Time |-> IF hi[k][t] # None THEN hi[k][t] ELSE lo[k][t]]]

\* what a file contributes to reads: its content minus its tombstones
Visible(f) == [k \in Keys |-> [t \in Time |-> IF t \in f.tomb[k] THEN None ELSE f.data[k][t]]]

\* LWW over a run of files, newer (higher index = higher generation/sequence) wins
RECURSIVE MergeFiles(_, _, _)
MergeFiles(fs, i, j) == IF i > j THEN EmptyLayer ELSE Over(MergeFiles(fs, i, j - 1), Visible(fs[j]))

FilesView(fs) == MergeFiles(fs, 1, Len(fs))

\* the full read table of a state
ReadOf(fs, sn, ca) == Over(Over(FilesView(fs), sn), ca)
ReadAll == ReadOf(files, snap, cache)

\* points of one row inside [lo, hi], ascending, as <<time, value>> pairs
AscSeq(row, lo, hi) ==
  LET F[t \in (lo - 1)..hi] ==
        IF t < lo THEN <<>>
        ELSE IF row[t] # None THEN Append(F[t - 1], <<t, row[t]>>) ELSE F[t - 1]
  IN F[hi]
Reverse(s) == [i \in 1..Len(s) |-> s[Len(s) + 1 - i]]
RangeSeq(tbl, k, lo, hi, dir) == IF dir = "asc" THEN AscSeq(tbl[k], lo, hi) ELSE Reverse(AscSeq(tbl[k], lo, hi))

\* The read operation of the shard
Read(k, lo, hi, dir) == RangeSeq(ReadAll, k, lo, hi, dir)

ApplyBatch(layer, b) ==
  LET F[i \in 0..Len(b)] == IF i = 0 THEN layer
                            ELSE [F[i - 1] EXCEPT ![b[i].k][b[i].t] = b[i].v]
  IN F[Len(b)]

ClearRange(layer, K, lo, hi) ==
  [k \in Keys |-> [t \in Time |-> IF k \in K /\ t >= lo /\ t <= hi THEN None ELSE layer[k][t]]]

-----------------------------------------------------------------------------
Init ==
  /\ files = <<>>
  /\ snap = EmptyLayer /\ snapActive = FALSE
  /\ cache = EmptyLayer
  /\ acked = EmptyLayer
  /\ cnt = [w |-> 0, s |-> 0, c |-> 0, d |-> 0, r |-> 0, f |-> 0]

\* Shard.WritePoints: points go to the hot store in batch order (duplicate and out-of-order
\* timestamps allowed; the later point of a batch wins), then they are acknowledged.
Write(b) ==
  /\ cache' = ApplyBatch(cache, b)
  /\ acked' = ApplyBatch(acked, b)
  /\ cnt' = [cnt EXCEPT !.w = @ + 1]
  /\ UNCHANGED <<files, snap, snapActive>>

\* Engine.WriteSnapshot, first half (under the engine lock): Cache.Snapshot().  After a failed
\* flush the retained snapshot is retried as it is, the hot store is not moved.
SnapshotBegin ==
  /\ ~snapActive
  /\ \/ /\ snap = EmptyLayer /\ cache # EmptyLayer
        /\ snap' = cache /\ cache' = EmptyLayer
     \/ /\ snap # EmptyLayer
        /\ UNCHANGED <<snap, cache>>
  /\ snapActive' = TRUE
  /\ cnt' = [cnt EXCEPT !.s = @ + 1]
  /\ UNCHANGED <<files, acked>>

\* second half: Compactor.WriteSnapshot wrote the file, FileStore.Replace(nil, new) installed
\* it as the newest generation, Cache.ClearSnapshot(true).
SnapshotInstall ==
  /\ snapActive
  /\ Len(files) < MaxFiles
  /\ files' = Append(files, [data |-> snap, tomb |-> NoTomb])
  /\ snap' = EmptyLayer /\ snapActive' = FALSE
  /\ UNCHANGED <<cache, acked, cnt>>

\* the flush failed (writer error / snapshots disabled): Cache.ClearSnapshot(false)
SnapshotFail ==
  /\ snapActive
  /\ snapActive' = FALSE
  /\ cnt' = [cnt EXCEPT !.f = @ + 1]
  /\ UNCHANGED <<files, snap, cache, acked>>

\* A compaction of the adjacent files i..j (any mode): one output file holding LWW(inputs)
\* minus tombstones at the position of the newest input; no output file when nothing is left.
Compact(i, j, mode) ==
  /\ 1 <= i /\ i <= j /\ j <= Len(files)
  /\ LET merged == MergeFiles(files, i, j)
         out == IF merged = EmptyLayer THEN <<>> ELSE <<[data |-> merged, tomb |-> NoTomb]>>
     IN files' = SubSeq(files, 1, i - 1) \o out \o SubSeq(files, j + 1, Len(files))
  /\ cnt' = [cnt EXCEPT !.c = @ + 1]
  /\ UNCHANGED <<snap, snapActive, cache, acked>>

\* an aborted / failed compaction changes nothing
CompactAbort(i, j, mode) ==
  /\ 1 <= i /\ i <= j /\ j <= Len(files)
  /\ cnt' = [cnt EXCEPT !.f = @ + 1]
  /\ UNCHANGED <<files, snap, snapActive, cache, acked>>

\* Shard.DeleteSeriesRange(keys K, [lo, hi]): tombstones in every file, range removed from the
\* hot store.  (A delete while a snapshot exists is C10's subject - recorded finding F14 - and is
\* kept out of this module: guard snap = EmptyLayer.)
DeleteRange(K, lo, hi) ==
  /\ snap = EmptyLayer /\ ~snapActive
  /\ lo <= hi
  /\ files' = [i \in 1..Len(files) |->
                 [files[i] EXCEPT !.tomb = [k \in Keys |-> IF k \in K THEN @[k] \cup (lo..hi) ELSE @[k]]]]
  /\ cache' = ClearRange(cache, K, lo, hi)
  /\ acked' = ClearRange(acked, K, lo, hi)
  /\ cnt' = [cnt EXCEPT !.d = @ + 1]
  /\ UNCHANGED <<snap, snapActive>>

\* Shard.Close + Shard.Open: the files are reloaded with their tombstones, the WAL (everything
\* written since the last *installed* snapshot) is replayed into the hot store.
Reopen ==
  /\ ~snapActive
  /\ cache' = Over(snap, cache)
  /\ snap' = EmptyLayer
  /\ cnt' = [cnt EXCEPT !.r = @ + 1]
  /\ UNCHANGED <<files, snapActive, acked>>

Physical ==
  \/ SnapshotBegin \/ SnapshotInstall \/ SnapshotFail \/ Reopen
  \/ \E i, j \in 1..MaxFiles, m \in Modes : Compact(i, j, m) \/ CompactAbort(i, j, m)

Next ==
  \/ \E b \in Batches(MaxBatch) : Write(b)
  \/ \E K \in (SUBSET Keys) \ {{}}, lo, hi \in Time : DeleteRange(K, lo, hi)
  \/ Physical

Spec == Init /\ [][Next]_vars

Bounded ==
  /\ cnt.w <= MaxWrites /\ cnt.s <= MaxSnaps /\ cnt.c <= MaxCompacts
  /\ cnt.d <= MaxDeletes /\ cnt.r <= MaxReopens /\ cnt.f <= MaxFails

-----------------------------------------------------------------------------
TypeOK ==
  /\ files \in Seq(FileT) /\ Len(files) <= MaxFiles
  /\ snap \in Layer /\ cache \in Layer /\ acked \in Layer
  /\ snapActive \in BOOLEAN
  /\ (snapActive => snap # EmptyLayer)

\* C02: every read (key, range, direction) equals the acknowledged history restricted to the
\* range, in order - whatever the split between cache, snapshot and overlapping files.
C02_ReadIsLww ==
  LET r == ReadAll IN       \* (Read(k, lo, hi, dir) = RangeSeq(ReadAll, ...); evaluated once per state)
  \A k \in Keys, lo, hi \in Time, dir \in {"asc", "desc"} :
     lo <= hi => RangeSeq(r, k, lo, hi, dir) = RangeSeq(acked, k, lo, hi, dir)

\* Which kind of step was taken is read off the counters (every Write increments cnt.w, every
\* DeleteRange cnt.d, nothing else touches them): evaluating the action definitions again on every
\* transition made TLC ~20x slower.  StepKindsAgree states the equivalence and is checked on its own.
IsWriteStep == cnt'.w = cnt.w + 1
IsPhysicalStep == cnt'.w = cnt.w /\ cnt'.d = cnt.d
StepKindsAgree == [][(Physical <=> IsPhysicalStep) /\ ((\E b \in Batches(MaxBatch) : Write(b)) <=> IsWriteStep)]_vars

\* C02: re-writing identical points changes nothing (action property): a write after which the
\* acknowledged history is what it was before leaves every read unchanged
Identical(b) == \A i \in 1..Len(b) : acked[b[i].k][b[i].t] = b[i].v
C02_IdempotentRewrite == [][(IsWriteStep /\ acked' = acked) => ReadAll' = ReadAll]_vars
IdenticalLeavesAcked == [][\A b \in Batches(MaxBatch) : (Identical(b) /\ Write(b)) => acked' = acked]_vars

\* C09 (engine level): no physical action (snapshot begin / install / fail, compaction, aborted
\* compaction, reopen) changes what reads return (action property)
C09_ContentPreserved == [][IsPhysicalStep => (ReadAll' = ReadAll /\ acked' = acked)]_vars

\* non-vacuity witnesses (checked to be violated by dedicated configs)
NeverThreeLayers == ~(Len(files) >= 2 /\ snapActive /\ cache # EmptyLayer)
=============================================================================
