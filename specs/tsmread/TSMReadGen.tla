---------------------------- MODULE TSMReadGen ----------------------------
(* Behaviour generator for the replay on a real tsdb.Shard / tsm1.Engine (C02, C09).       *)
(* One step = one call issued by the sequential driver.  Every step carries the model's    *)
(* projected state after the step (visible content of every file, snapshot, hot store) and *)
(* the model's full Read table (per key the ascending list of <<time, value>>); the        *)
(* harness restricts it to every [lo, hi] and direction itself.                            *)
(* Simulation mode picks uniformly among successor states, which would drown the single    *)
(* snapshot / compaction successors in hundreds of write successors: the kind of the next  *)
(* step is therefore drawn first (weighted), then its arguments.                           *)
EXTENDS TSMRead, Json

CONSTANT GenLen
VARIABLE hist

gvars == <<vars, hist>>

TblSeq(tbl) == [k \in Keys |-> AscSeq(tbl[k], 0, MaxT)]
Proj == [files  |-> [i \in 1..Len(files') |-> TblSeq(Visible(files'[i]))],
         snap   |-> TblSeq(snap'),
         cache  |-> TblSeq(cache'),
         active |-> snapActive',
         read   |-> TblSeq(ReadOf(files', snap', cache'))]
Log(rec) == hist' = Append(hist, rec @@ [st |-> Proj])

\* weighted kinds of steps; a kind is drawn among those enabled in the current state
Kinds == <<"w", "w", "w", "w", "rw", "sb", "sb", "sb", "sb", "si", "si", "si", "si", "si", "sf",
           "c", "c", "c", "ca", "d", "d", "r">>

\* TLC evaluates constant-level subexpressions once and caches them, RandomElement(Keys) included:
\* Dyn makes every drawn-from set syntactically state-dependent.
Dyn(S) == {x \in S : Len(hist) >= 0}
RandPoint(d) == [k |-> RandomElement(Dyn(Keys)), t |-> RandomElement(Dyn(Time)), v |-> RandomElement(Dyn(Vals))]
RandBatch(d) == LET n == RandomElement(Dyn(1..MaxBatch)) IN [i \in 1..n |-> RandPoint(i)]
\* a batch that repeats acknowledged points verbatim (C02_IdempotentRewrite on the real code)
AckedPoints == {p \in Point : acked[p.k][p.t] = p.v}
RewriteBatch == LET n == RandomElement(Dyn(1..MaxBatch)) IN [i \in 1..n |-> RandomElement(AckedPoints)]

GWrite(b, how) == /\ Write(b) /\ Log([a |-> "write", b |-> b, how |-> how])
GBegin == /\ SnapshotBegin /\ Log([a |-> "snapbegin"])
GInstall == /\ SnapshotInstall /\ Log([a |-> "snapinstall"])
GFail == /\ SnapshotFail /\ Log([a |-> "snapfail"])
GCompact(i, j, m) == /\ Compact(i, j, m) /\ Log([a |-> "compact", i |-> i, j |-> j, mode |-> m])
GAbort(i, j, m) == /\ CompactAbort(i, j, m) /\ Log([a |-> "compactabort", i |-> i, j |-> j, mode |-> m])
GDelete(K, lo, hi) == /\ DeleteRange(K, lo, hi) /\ Log([a |-> "delete", keys |-> K, lo |-> lo, hi |-> hi])
GReopen == /\ Reopen /\ Log([a |-> "reopen"])

CanBegin == ~snapActive /\ (snap # EmptyLayer \/ cache # EmptyLayer)
KindEnabled(kd) ==
  CASE kd = "w"  -> TRUE
    [] kd = "rw" -> AckedPoints # {}
    [] kd = "sb" -> CanBegin
    [] kd = "si" -> snapActive /\ Len(files) < MaxFiles
    [] kd = "sf" -> snapActive
    [] kd = "c"  -> Len(files) >= 1
    [] kd = "ca" -> Len(files) >= 1
    [] kd = "d"  -> snap = EmptyLayer /\ ~snapActive
    [] kd = "r"  -> ~snapActive

\* RandomElement is re-evaluated at every use of a LET name, so each draw is stored once in a
\* TLC register (TLCSet is evaluated left to right, once per step) and read back from there.
Draw ==
  /\ TLCSet(1, RandomElement({i \in 1..Len(Kinds) : KindEnabled(Kinds[i])}))
  /\ TLCSet(2, TLCEval(RandBatch(Len(hist))))
  /\ TLCSet(3, IF AckedPoints # {} THEN TLCEval(RewriteBatch) ELSE <<>>)
  /\ TLCSet(4, RandomElement(1..(IF Len(files) = 0 THEN 1 ELSE Len(files))))
  /\ TLCSet(5, RandomElement(TLCGet(4)..(IF Len(files) = 0 THEN 1 ELSE Len(files))))
  /\ TLCSet(6, RandomElement(Dyn(Time)))
  /\ TLCSet(7, RandomElement(TLCGet(6)..MaxT))
  /\ TLCSet(8, RandomElement(Dyn((SUBSET Keys) \ {{}})))
  /\ TLCSet(9, RandomElement(Dyn(Modes)))

GNext ==
  /\ Len(hist) < GenLen
  /\ Draw
  /\ LET kind == Kinds[TLCGet(1)]
         n == Len(files)
         fresh == GWrite(TLCGet(2), "fresh")
     IN CASE kind = "w"  -> fresh
          [] kind = "rw" -> GWrite(TLCGet(3), "rewrite")
          [] kind = "sb" -> GBegin
          [] kind = "si" -> GInstall
          [] kind = "sf" -> GFail
          [] kind = "c"  -> GCompact(TLCGet(4), TLCGet(5), TLCGet(9))
          [] kind = "ca" -> GAbort(TLCGet(4), TLCGet(5), TLCGet(9))
          [] kind = "d"  -> GDelete(TLCGet(8), TLCGet(6), TLCGet(7))
          [] kind = "r"  -> GReopen

GInit == Init /\ hist = <<>>
GSpec == GInit /\ [][GNext]_gvars

Emit == (Len(hist) = GenLen) => PrintT(<<"BEHAVIOUR", ToJson(hist)>>)
=============================================================================
