------------------------------ MODULE BlockCodec ------------------------------
(* C13 - the case analysis of the TSM block encoders as a decision table.                          *)
(*                                                                                                *)
(* A block = type byte + timestamp section + value section.  The encoders pick a scheme from the  *)
(* shape of the data (tsdb/engine/tsm1/timestamp.go, int.go, float.go, bool.go, string.go and the *)
(* batch_*.go twins):                                                                              *)
(*   timestamps: deltas (unsigned, wrapping); one value: packed; all deltas equal: RLE; some      *)
(*               delta > 2^60-1: raw; else simple8b with a power-of-ten divisor                    *)
(*   integers:   zig-zag deltas; more than two values and all deltas equal: RLE; some zig-zag     *)
(*               value > 2^60-1: raw (the iterator encoder also looks at the first value, the      *)
(*               batch encoder does not); else simple8b.  Unsigned = integers after a cast.        *)
(*   floats:     XOR with the previous value: 0 -> one bit; inside the previous leading/trailing  *)
(*               window -> reuse; else new window (5 bits leading, clamped to 31; 6 bits length,   *)
(*               64 written as 0); NaN is refused (it is the end marker)                           *)
(*   booleans:   bit-packed behind a varint count;   strings: length-prefixed, snappy              *)
(* The state graph enumerates every combination of: value type, length class, timestamp shape,    *)
(* value shape.  For each reachable combination the module gives the scheme the encoders must     *)
(* pick (checked against the header nibble of the real block) and whether encoding must succeed.   *)
(* The harness instantiates every case with concrete seeded sequences, encodes with each encoder   *)
(* and decodes with each decoder: the result must be the input bit for bit.                        *)
EXTENDS Integers, Sequences, FiniteSets, TLC, Json

CONSTANTS Lens,        \* length classes (numbers of values)
          Cross        \* TRUE: every timestamp shape with every value shape; FALSE: one axis at a time

Types == {"float", "integer", "unsigned", "boolean", "string"}
Widths == {0, 1, 2, 3, 4, 5, 6, 7, 8, 10, 12, 15, 20, 30, 60}       \* simple8b selectors (0: runs of ones)

\* ---- timestamp shapes: [k |-> kind, p |-> parameter]
Sh(k, p) == [k |-> k, p |-> p]
TsShapes ==
  {Sh("regular", e) : e \in {0, 1, 3, 6, 9, 12, 13}}     \* constant delta c*10^e (divisor classes; 13: above the largest divisor)
  \cup {Sh("zeroDelta", 0), Sh("descending", 0)}          \* equal timestamps; constant negative delta (wraps)
  \cup {Sh("oneOff", pos) : pos \in {1, 2, 3}}            \* constant delta except the first / a middle / the last one
  \cup {Sh("width", w) : w \in Widths}                     \* irregular deltas of exactly w bits
  \cup {Sh("scaled", e) : e \in {1, 3, 9}}                 \* irregular multiples of 10^e
  \cup {Sh("atLimit", 0), Sh("overLimit", 0),              \* largest delta 2^60-1 / 2^60
        Sh("unsorted", 0), Sh("extremes", 0)}              \* a negative delta; MinInt64 .. MaxInt64
DefaultTs == Sh("regular", 9)

\* the shape needs at least this many values to be what it says
TsMinLen(s) == CASE s.k \in {"regular", "zeroDelta", "descending"} -> 1
                 [] s.k = "oneOff" -> 4
                 [] s.k = "width" -> IF s.p = 0 THEN 242 ELSE 3
                 [] OTHER -> 3

TsScheme(n, s) == IF n = 1 THEN "packed"
                  ELSE IF n = 2 THEN "rle"                                  \* a single delta is a run
                  ELSE IF s.k \in {"regular", "zeroDelta", "descending"} THEN "rle"
                  ELSE IF s.k \in {"overLimit", "unsorted", "extremes"} THEN "raw"
                  ELSE "packed"

\* ---- value shapes per type
IntShapes ==
  {Sh("constant", 0), Sh("linear", 1), Sh("linear", -1)}
  \cup {Sh("oneOff", pos) : pos \in {1, 2, 3}}
  \cup {Sh("width", w) : w \in Widths}
  \cup {Sh("atLimit", 0), Sh("overLimit", 0), Sh("hugeDelta", 0),     \* largest zig-zag delta 2^60-1 / 2^60 / 61..64 bits
        Sh("extremes", 0),                       \* MinInt64, MaxInt64 alternating: the deltas WRAP to -1 / +1 (small!)
        Sh("firstHuge", 0), Sh("firstHugeLinear", 0), Sh("random", 0)}
FloatShapes == {Sh(k, 0) : k \in {"constant", "counting", "random", "window", "signFlip", "lowBit", "zeroes", "denormal",
                                  "infinities", "limits", "nan"}}
BoolShapes == {Sh(k, 0) : k \in {"allTrue", "allFalse", "alternate", "random"}}
StringShapes == {Sh(k, 0) : k \in {"empty", "short", "mixed", "long", "nonutf8", "repetitive"}}
ValShapes(t) == CASE t \in {"integer", "unsigned"} -> IntShapes [] t = "float" -> FloatShapes
                  [] t = "boolean" -> BoolShapes [] t = "string" -> StringShapes
DefaultVal(t) == CASE t \in {"integer", "unsigned"} -> Sh("random", 0) [] t = "float" -> Sh("counting", 0)
                   [] t = "boolean" -> Sh("random", 0) [] t = "string" -> Sh("short", 0)
ValMinLen(t, s) == IF t \in {"integer", "unsigned"} THEN
                      (CASE s.k \in {"constant", "linear", "firstHuge", "firstHugeLinear", "random"} -> 1
                         [] s.k = "oneOff" -> 5
                         [] s.k = "width" -> IF s.p = 0 THEN 243 ELSE 4
                         [] OTHER -> 3)
                   ELSE 1
ValMaxLen(t, s) == IF t = "string" /\ s.k = "long" THEN 9 ELSE 100000

\* integers: "it" = iterator encoder (Values.Encode), "ba" = batch encoder (Encode*ArrayBlock)
AllDeltasEqual(s) == s.k \in {"constant", "linear", "firstHugeLinear"}
IntScheme(n, s, enc) ==
  IF n > 2 /\ AllDeltasEqual(s) THEN "rle"
  ELSE IF s.k \in {"overLimit", "hugeDelta"} /\ n >= 2 THEN "raw"
  ELSE IF s.k \in {"firstHuge", "firstHugeLinear", "extremes"} /\ enc = "it" THEN "raw"    \* zig-zag of the first value > 2^60-1
  ELSE "packed"

\* Encoding must succeed for every value the point parser admits.  NaN and +-Inf are not admitted (models.NewPoint
\* and the line-protocol parser refuse them): the encoders may refuse such a block (NaN is the end-of-stream marker;
\* the batch encoder detects NaN by summing the values, and +Inf + -Inf is NaN), but if they accept it, it must
\* come back bit for bit.
MustEncode(t, s) == ~(t = "float" /\ s.k \in {"nan", "infinities"})

VARIABLES ph, ty, n, ts, vs
vars == <<ph, ty, n, ts, vs>>
Init == ph = "type" /\ ty = "float" /\ n = 1 /\ ts = DefaultTs /\ vs = Sh("counting", 0)
ChooseType(t) == ph = "type" /\ ty' = t /\ ph' = "len" /\ UNCHANGED <<n, ts, vs>>
ChooseLen(l) == ph = "len" /\ n' = l /\ ph' = "ts" /\ UNCHANGED <<ty, ts, vs>>
ChooseTs(s) == ph = "ts" /\ TsMinLen(s) <= n /\ ts' = s /\ ph' = "val" /\ UNCHANGED <<ty, n, vs>>
ChooseVal(s) == /\ ph = "val" /\ ValMinLen(ty, s) <= n /\ n <= ValMaxLen(ty, s)
                /\ (Cross \/ ts = DefaultTs \/ s = DefaultVal(ty))
                /\ vs' = s /\ ph' = "done" /\ UNCHANGED <<ty, n, ts>>
Next == \/ \E t \in Types : ChooseType(t)
        \/ \E l \in Lens : ChooseLen(l)
        \/ \E s \in TsShapes : ChooseTs(s)
        \/ \E s \in ValShapes(ty) : ChooseVal(s)
Spec == Init /\ [][Next]_vars

Case == [type |-> ty, n |-> n, ts |-> ts, val |-> vs,
         tsScheme |-> TsScheme(n, ts),
         valSchemeIt |-> IF ty \in {"integer", "unsigned"} THEN IntScheme(n, vs, "it") ELSE "only",
         valSchemeBa |-> IF ty \in {"integer", "unsigned"} THEN IntScheme(n, vs, "ba") ELSE "only",
         ok |-> MustEncode(ty, vs)]
Emit == (ph = "done") => PrintT(<<"BEHAVIOUR", ToJson(Case)>>)

TypeOK == ph \in {"type", "len", "ts", "val", "done"} /\ ty \in Types /\ n \in Lens \cup {1}
\* the table is total and consistent: a run needs equal deltas, raw needs an oversized delta
C13_TableConsistent == (ph = "done") =>
   /\ TsScheme(n, ts) \in {"rle", "packed", "raw"}
   /\ (TsScheme(n, ts) = "raw" => n >= 3)
   /\ (ty \in {"integer", "unsigned"} =>
        /\ (IntScheme(n, vs, "ba") = "raw" => IntScheme(n, vs, "it") = "raw")      \* the batch encoder is never more cautious
        /\ (IntScheme(n, vs, "it") = "rle" <=> IntScheme(n, vs, "ba") = "rle"))
=============================================================================
