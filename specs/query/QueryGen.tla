------------------------------ MODULE QueryGen ------------------------------
(* Behaviour generator for C11: a behaviour is a sequence of writes (with keys overwritten later),  *)
(* layout steps (snapshot, compact) and queries; every query step carries the statement record and   *)
(* Eval(statement, logical data).  The harness replays the steps in several physical layouts of the  *)
(* real engine / cluster and compares every query answer with `res` and across layouts.              *)
(* Simulation mode: the kind of a step and every component of a statement are drawn with             *)
(* RandomElement (a bound variable of \E is evaluated once; Dyn defeats TLC's caching of             *)
(* constant-level subexpressions).                                                                   *)
EXTENDS Query, Json

CONSTANT GenLen
VARIABLE hist
gvars == <<vars, hist>>

Dyn(S) == {x \in S : Len(hist) >= 0}
PickSeq(q) == q[RandomElement(Dyn(1..Len(q)))]
Pick(S) == RandomElement(Dyn(S))

Log(rec) == hist' = Append(hist, rec)

\* --- writes
ASSUME Vals = SVals      \* one draw per component (a LET name would be re-evaluated at every use)
RandPoint(i) == [s |-> Pick(SeriesIds), f |-> PickSeq(<<"v", "v", "s">>), t |-> Pick(Time), x |-> Pick(Vals)]
RawBatch == LET n == Pick(1..MaxBatch) IN {RandPoint(i) : i \in 1..n}
\* a batch that overwrites existing keys (duplicates overwritten later)
RewriteBatch == LET n == Pick(1..MaxBatch)
                IN {[Pick(data) EXCEPT !.x = Pick(Vals)] : i \in 1..n}
\* a batch that gives several series a point at the SAME instant (ties: the order-independent tie-break rules of
\* min/max/first/last, runs of equal time in raw results)
TieBatch(t) == {[s |-> s, f |-> "v", t |-> t, x |-> Pick(Vals)] : s \in SeriesIds}
Dedup(B) == {p \in B : \A q \in B : SameKey(p, q) => p.x <= q.x}
PointSeq(B) == SortF(B, [p \in B |-> (p.s * 100 + p.t) * 10 + (IF p.f = "v" THEN 0 ELSE 1)])

GWrite(b) == Write(b) /\ Log([a |-> "write", pts |-> PointSeq(b)])
GSnapshot == Snapshot /\ Log([a |-> "snapshot"])
GCompact == Compact /\ Log([a |-> "compact"])

\* --- statements
NoPred == [k |-> "", op |-> "=", v |-> ""]
PredBag == << NoPred, NoPred, NoPred, NoPred, NoPred, NoPred, NoPred,
              [k |-> "t1", op |-> "=", v |-> "a"], [k |-> "t1", op |-> "=", v |-> "b"],
              [k |-> "t1", op |-> "!=", v |-> "a"], [k |-> "t1", op |-> "=", v |-> ""],
              [k |-> "t2", op |-> "=", v |-> "x"], [k |-> "t2", op |-> "!=", v |-> "x"] >>
FnBag == << "raw", "raw", "raw", "count", "sum", "mean", "min", "max", "first", "last", "first", "last", "spread", "median" >>
GroupBag == << <<>>, <<>>, <<"t1">>, <<"t1">>, <<"t2">>, <<"t1", "t2">> >>

FieldFor(fn) == IF fn = "raw" THEN PickSeq(<<"v", "v", "s", "both", "both">>)
                ELSE IF fn \in {"count", "first", "last"} THEN PickSeq(<<"v", "v", "s">>) ELSE "v"
FillFor(fld, iv) == IF iv = 0 THEN "none"
                    ELSE IF fld = "s" THEN PickSeq(<<"none", "null", "previous", "previous">>)
                    ELSE PickSeq(<<"none", "null", "number", "previous", "previous", "linear", "linear">>)

GQuery(st0) ==
  LET st == IF Amb(st0, data) THEN [st0 EXCEPT !.limit = 0, !.offrows = 0] ELSE st0   \* see Amb
  IN /\ WellFormed(st)
     /\ UNCHANGED vars
     /\ Log([a |-> "query", st |-> st, res |-> Eval(st, data), nsel |-> Cardinality(Sel(st, data)),
              \* what the recorded deviation "SLIMIT per shard" gives with shards of 3 units (1 h)
              dev3 |-> IF st.slimit > 0 THEN EvalSLimitPerShard(st, data, 3) ELSE <<>>,
              \* first() of field s when s is a boolean field (ties on time -> false)
              resb |-> IF st.fn = "first" /\ st.field = "s" THEN Eval([st EXCEPT !.fn = "firstlow"], data) ELSE <<>>,
              dev3b |-> IF st.fn = "first" /\ st.field = "s" /\ st.slimit > 0
                        THEN EvalSLimitPerShard([st EXCEPT !.fn = "firstlow"], data, 3) ELSE <<>>])

RandQuery ==
  \E fn \in {PickSeq(FnBag)} :
  \E fld \in {FieldFor(fn)} :
  \E iv \in {IF fn = "raw" THEN 0 ELSE PickSeq(<<0, 0, 1, 2, 3, 3, 4, 5>>)} :
  \E off \in {IF iv = 0 THEN 0 ELSE PickSeq(<<0, 0>> \o [i \in 1..iv |-> i - 1])} :
  \E lo \in {IF iv = 0 THEN PickSeq(<<NoBound, NoBound, 0, 1, 2, 3, 5, 6>>) ELSE PickSeq(<<0, 0, 1, 2, 3, 4, 6>>)} :
  \E hi \in {IF iv = 0 THEN PickSeq(<<NoBound, NoBound, NoBound>> \o [i \in 1..4 |-> MaxT + 1 - i])
             ELSE PickSeq([i \in 1..5 |-> MaxT + 1 - i])} :
  \E hi2 \in {IF hi # NoBound /\ lo # NoBound /\ hi < lo THEN lo ELSE hi} :
  \E st0 \in {[fn |-> fn, field |-> fld, lo |-> lo, hi |-> hi2, pred |-> PickSeq(PredBag),
          interval |-> iv, offset |-> off, group |-> PickSeq(GroupBag), fill |-> FillFor(fld, iv),
          desc |-> PickSeq(<<FALSE, FALSE, TRUE>>),
          limit |-> IF fn = "raw" THEN PickSeq(<<0, 1, 2, 2, 3>>) ELSE PickSeq(<<0, 0, 0, 1, 2, 3>>),
          offrows |-> IF fn = "raw" THEN PickSeq(<<0, 1, 1, 2>>) ELSE PickSeq(<<0, 0, 1, 2>>),
          slimit |-> PickSeq(<<0, 0, 0, 0, 0, 0, 1, 2>>), soffset |-> PickSeq(<<0, 0, 0, 0, 0, 1>>)]} :
  GQuery([st0 EXCEPT !.soffset = IF st0.slimit = 0 THEN 0 ELSE @, !.offrows = IF st0.limit = 0 THEN 0 ELSE @])

Kinds == << "w", "w", "tw", "rw", "snap", "snap", "compact", "q", "q", "q", "q", "q" >>

GStep(kind) ==
  CASE kind = "w" \/ data = {} -> (\E b0 \in {RawBatch} : \E b \in {Dedup(b0)} : GWrite(b))
    [] kind = "rw"             -> (\E b0 \in {RewriteBatch} : \E b \in {Dedup(b0)} : GWrite(b))
    [] kind = "tw"             -> (\E t \in {Pick(Time)} : \E b \in {TieBatch(t)} : GWrite(b))
    [] kind = "snap"           -> IF cache # {} THEN GSnapshot ELSE RandQuery
    [] kind = "compact"        -> IF Len(files) >= 2 THEN GCompact ELSE IF cache # {} THEN GSnapshot ELSE RandQuery
    [] OTHER                   -> RandQuery

\* the first steps are writes, so that most statements see some data
GNext == Len(hist) < GenLen /\ \E kind \in {IF Len(hist) < 2 THEN "w" ELSE IF Len(hist) = 2 THEN "tw" ELSE PickSeq(Kinds)} : GStep(kind)
GInit == Init /\ hist = <<>>
GSpec == GInit /\ [][GNext]_gvars

Out == [series |-> SeriesTab, steps |-> hist]
Emit == (Len(hist) = GenLen) => PrintT(<<"BEHAVIOUR", ToJson(Out)>>)
=============================================================================
