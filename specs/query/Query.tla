------------------------------- MODULE Query -------------------------------
(* C11 - the result of an InfluxQL SELECT depends only on the logical data and the statement.      *)
(*                                                                                                  *)
(* Logical data: a set of points [s, f, t, x] (series index, field, time, value) with at most one  *)
(* point per key (s, f, t): a later write replaces the value.  Physical layout (write cache, TSM    *)
(* files, shard-group duration, nodes) is modelled only as far as it is needed to state that the    *)
(* layout actions Snapshot / Compact / Reshard / Spread leave the logical data unchanged; the       *)
(* content of the check is the binding: the harness loads the same write sequence into several      *)
(* physical layouts of the real storage engine / cluster, runs the statement text through the real  *)
(* query executor and compares with Eval below (and the layouts with each other).                   *)
(*                                                                                                  *)
(* Eval(st, D) is the reference evaluation, written relationally from the documented InfluxQL       *)
(* semantics (DESIGN Appendix E).  Conventions that had to be calibrated against the unchanged      *)
(* tree on the single-shard, all-in-cache layout are marked CALIBRATED.                             *)
(*                                                                                                  *)
(* Numbers: field values are small naturals; results are exact rationals <<n, d>> (d > 0), the      *)
(* null value is <<0, 0>>.  Time is 0..MaxT in units (the harness maps a unit to 20 minutes).       *)
EXTENDS Integers, Sequences, FiniteSets, TLC

CONSTANTS SeriesIds,    \* series in use: subset of 1..Len(SeriesTab)
          Fields,       \* subset of {"v", "s"}: "v" numeric (float or integer), "s" string or boolean
          MaxT,         \* times 0..MaxT
          Vals,         \* values of field v
          SVals,        \* values of field s (ordered like the naturals; {0,1} for a boolean field)
          MaxBatch,     \* points per write
          MaxPoints,    \* bound on |data| for exhaustive runs
          MaxFiles,     \* bound on the number of files for exhaustive runs
          Wide          \* BOOLEAN: the larger statement families in the sanity theorems

\* The series universe.  A tag value "" means that the series does not carry the tag.
SeriesTab == << [m |-> "m1", t1 |-> "a", t2 |-> ""],
                [m |-> "m1", t1 |-> "b", t2 |-> "x"],
                [m |-> "m1", t1 |-> "",  t2 |-> "x"],
                [m |-> "m1", t1 |-> "a", t2 |-> "x"],
                [m |-> "m2", t1 |-> "a", t2 |-> ""] >>
Meas == "m1"                 \* every statement selects FROM m1; m2 is noise that must never show up
FillNum == 77                \* the constant of fill(<number>)
NoBound == -1                \* lo / hi absent
Epoch == -1000               \* the instant "Unix epoch 0" in a result (the harness maps it to 0 ns)
Null == <<0, 0>>

Time == 0..MaxT
ValsOf(f) == IF f = "v" THEN Vals ELSE SVals
Points == UNION {[s : SeriesIds, f : {f}, t : Time, x : ValsOf(f)] : f \in Fields}
SameKey(p, q) == p.s = q.s /\ p.f = q.f /\ p.t = q.t

VARIABLES data,     \* logical data
          cache,    \* physical: points in the write cache
          files     \* physical: sequence of TSM files (sets of points), oldest first
vars == <<data, cache, files>>

UniqueKeys(D) == \A p, q \in D : SameKey(p, q) => p = q
LWW(old, new) == {p \in old : ~\E q \in new : SameKey(p, q)} \cup new     \* new wins

RECURSIVE FoldFiles(_, _)
FoldFiles(fs, acc) == IF fs = <<>> THEN acc ELSE FoldFiles(SubSeq(fs, 2, Len(fs)), LWW(acc, fs[1]))
Phys == LWW(FoldFiles(files, {}), cache)       \* what a physical read returns: newer generation wins

RECURSIVE BatchesN(_)
BatchesN(n) == IF n = 0 THEN {{}}
               ELSE LET B == BatchesN(n - 1) IN B \cup UNION {{b \cup {p} : p \in {q \in Points : \A r \in b : ~SameKey(q, r)}} : b \in B}
Batches(n) == BatchesN(n) \ {{}}        \* a write: 1..n points with distinct keys (an operator with a
                                        \* parameter: TLC would evaluate a constant eagerly, also for the generator)

Init == data = {} /\ cache = {} /\ files = <<>>
Write(b) == /\ data' = LWW(data, b) /\ cache' = LWW(cache, b) /\ UNCHANGED files
Snapshot == /\ cache # {} /\ files' = Append(files, cache) /\ cache' = {} /\ UNCHANGED data
Compact == /\ Len(files) >= 2 /\ files' = <<FoldFiles(files, {})>> /\ UNCHANGED <<data, cache>>
\* Reshard(d) (another shard-group duration) and Spread(N, RF) (shards placed on N nodes with RF replicas)
\* partition / replicate the points by time and series key; the logical data is the union of the shards
\* with replicas identified.  They have no state here: the harness instantiates them (shard-group
\* durations of 1 h and 7 d, 1-3 nodes, RF 1-2) for every behaviour.
Next == (\E b \in Batches(MaxBatch) : Write(b)) \/ Snapshot \/ Compact
Spec == Init /\ [][Next]_vars
SpecData == Init /\ [][\E b \in Batches(MaxBatch) : Write(b)]_vars
Bounded == Cardinality(data) <= MaxPoints /\ Len(files) <= MaxFiles

TypeOK == data \subseteq Points /\ UniqueKeys(data) /\ cache \subseteq Points
C11_LayoutKeepsData == Phys = data

-----------------------------------------------------------------------------
(* Statements.                                                                                      *)
(*  fn       "raw" | "count" | "sum" | "mean" | "min" | "max" | "first" | "last" | "spread" | "median" *)
(*  field    "v" | "s" | "both" (raw only: SELECT v, s)                                              *)
(*  lo, hi   inclusive time bounds, NoBound = absent                                                 *)
(*  pred     [k, op, v]: tag predicate  k op 'v'  (op "=" or "!="), k = "" means none                *)
(*  interval GROUP BY time(interval, offset), 0 = none                                               *)
(*  group    GROUP BY tags: subsequence of <<"t1", "t2">>                                            *)
(*  fill     "none" | "null" | "number" | "previous" | "linear"                                      *)
(*  desc     ORDER BY time DESC                                                                      *)
(*  limit, offrows, slimit, soffset: 0 = absent                                                      *)

Tag(s, k) == IF k = "t1" THEN SeriesTab[s].t1 ELSE SeriesTab[s].t2
\* a series without the tag behaves like the empty value, for = and for !=        (CALIBRATED)
PredOK(st, s) == \/ st.pred.k = ""
                 \/ st.pred.op = "="  /\ Tag(s, st.pred.k) = st.pred.v
                 \/ st.pred.op = "!=" /\ Tag(s, st.pred.k) # st.pred.v
InRange(st, t) == (st.lo = NoBound \/ t >= st.lo) /\ (st.hi = NoBound \/ t <= st.hi)
FieldsOf(st) == IF st.field = "both" THEN {"v", "s"} ELSE {st.field}
Sel(st, D) == {p \in D : /\ SeriesTab[p.s].m = Meas /\ p.f \in FieldsOf(st)
                         /\ InRange(st, p.t) /\ PredOK(st, p.s)}

\* group key of a series: the values of the GROUP BY tags (missing tag = "")
GroupKey(st, s) == [i \in 1..Len(st.group) |-> Tag(s, st.group[i])]
\* order of tag values = byte order of the strings used ("" < "a" < "b", "" < "x")
Rank(v) == CASE v = "" -> 0 [] v = "a" -> 1 [] v = "b" -> 2 [] v = "x" -> 1
RECURSIVE KeyNum(_)
KeyNum(g) == IF g = <<>> THEN 0 ELSE Rank(g[Len(g)]) + 3 * KeyNum(SubSeq(g, 1, Len(g) - 1))

\* sort a finite set by an integer-valued key function (ascending; equal keys in CHOOSE order)
RECURSIVE SortF(_, _)
SortF(S, key) == IF S = {} THEN <<>>
                 ELSE LET m == CHOOSE x \in S : \A y \in S : key[x] <= key[y]
                      IN <<m>> \o SortF(S \ {m}, key)
Rev(q) == [i \in 1..Len(q) |-> q[Len(q) + 1 - i]]
Dir(st, q) == IF st.desc THEN Rev(q) ELSE q

RECURSIVE SumX(_)
SumX(S) == IF S = {} THEN 0 ELSE LET p == CHOOSE p \in S : TRUE IN p.x + SumX(S \ {p})
MinOf(S) == CHOOSE x \in S : \A y \in S : x <= y
MaxOf(S) == CHOOSE x \in S : \A y \in S : x >= y
XS(S) == {p.x : p \in S}
TS(S) == {p.t : p \in S}

IsSelector(fn) == fn \in {"min", "max", "first", "last", "firstlow"}
NoT == -2

\* Reduce(fn, S): S a non-empty set of points (of several series, possibly with equal times).
\* The tie-break rules are independent of the order in which points arrive - that is what makes the
\* result independent of the layout:  min/max: extreme value, ties -> earliest time;
\* first: earliest time, ties -> larger value;  last: latest time, ties -> larger value.
Reduce(fn, S) ==
  CASE fn = "count"  -> [t |-> NoT, v |-> <<Cardinality(S), 1>>]
    [] fn = "sum"    -> [t |-> NoT, v |-> <<SumX(S), 1>>]
    [] fn = "mean"   -> [t |-> NoT, v |-> <<SumX(S), Cardinality(S)>>]
    [] fn = "spread" -> [t |-> NoT, v |-> <<MaxOf(XS(S)) - MinOf(XS(S)), 1>>]
    [] fn = "min"    -> LET x == MinOf(XS(S)) IN [t |-> MinOf(TS({p \in S : p.x = x})), v |-> <<x, 1>>]
    [] fn = "max"    -> LET x == MaxOf(XS(S)) IN [t |-> MinOf(TS({p \in S : p.x = x})), v |-> <<x, 1>>]
    [] fn = "first"  -> LET t == MinOf(TS(S)) IN [t |-> t, v |-> <<MaxOf(XS({p \in S : p.t = t})), 1>>]
    [] fn = "last"   -> LET t == MaxOf(TS(S)) IN [t |-> t, v |-> <<MaxOf(XS({p \in S : p.t = t})), 1>>]
    \* CALIBRATED: first() of a BOOLEAN field breaks a tie on time towards false (BooleanFirstReduce), unlike
    \* every other type; still independent of the arrival order.  The generator prints this variant next to
    \* "first" for field s and the harness uses it when it made s a boolean field.
    [] fn = "firstlow" -> LET t == MinOf(TS(S)) IN [t |-> t, v |-> <<MinOf(XS({p \in S : p.t = t})), 1>>]
    [] fn = "median" -> LET q == SortF(S, [p \in S |-> p.x])      \* by value (a multiset: points are distinct)
                            n == Len(q)
                        IN [t |-> NoT,
                            v |-> IF n % 2 = 1 THEN <<q[(n + 1) \div 2].x, 1>>
                                  ELSE <<q[n \div 2].x + q[n \div 2 + 1].x, 2>>]

\* the combination step of the code for functions that are evaluated per shard / per node and merged
\* (count -> sum of counts, sum, min, max, first, last): used only for the sanity theorem C11_MergeOK
Partial(fn, S) == LET r == Reduce(fn, S) IN [s |-> 0, f |-> "v", t |-> IF r.t = NoT THEN 0 ELSE r.t, x |-> r.v[1]]
Combine(fn, A, B) ==
  IF A = {} THEN Reduce(fn, B) ELSE IF B = {} THEN Reduce(fn, A)
  ELSE LET pa == [Partial(fn, A) EXCEPT !.s = 1]
           pb == [Partial(fn, B) EXCEPT !.s = 2]
       IN Reduce(IF fn = "count" THEN "sum" ELSE fn, {pa, pb})

\* windows of GROUP BY time(i, off): start of the window of t
WinStart(st, t) == t - ((t - st.offset) % st.interval)
\* the exact value on the line through (k1, a) and (k2, b) at k (a, b rationals; k1 < k < k2 or k2 < k < k1)
Lin(k, k1, a, k2, b) ==
  LET p == k - k1  q == k2 - k1
      num == (b[1] * a[2] - a[1] * b[2]) * p + a[1] * b[2] * q
      den == a[2] * b[2] * q
  IN IF den < 0 THEN <<-num, -den>> ELSE <<num, den>>

\* rows of one result series for an aggregate / selector statement; P = selected points of the group (non-empty)
AggRows(st, P) ==
  IF st.interval = 0
  THEN LET r == Reduce(st.fn, P)
       \* CALIBRATED: without GROUP BY time an aggregate is reported at the lower time bound (epoch 0 when
       \* there is none), a selector at the time of the selected point
       IN << [t |-> IF IsSelector(st.fn) THEN r.t ELSE IF st.lo = NoBound THEN Epoch ELSE st.lo, v |-> r.v] >>
  ELSE LET In(w) == {p \in P : WinStart(st, p.t) = w}
           w0 == WinStart(st, st.lo)
           w1 == WinStart(st, st.hi)
           wins == IF st.fill = "none" THEN {WinStart(st, p.t) : p \in P}
                   ELSE {w \in (w0..w1) : (w - w0) % st.interval = 0}
           ws == Dir(st, SortF(wins, [w \in wins |-> w]))        \* iteration order
           N == Len(ws)
           real == [i \in 1..N |-> In(ws[i]) # {}]
           val == [i \in 1..N |-> IF real[i] THEN Reduce(st.fn, In(ws[i])).v ELSE Null]
           \* fill(previous) and fill(linear) work in ITERATION order (CALIBRATED): with ORDER BY time DESC
           \* "previous" is the window that follows in time
           prevs(i) == {j \in 1..(i - 1) : real[j]}
           nexts(i) == {j \in (i + 1)..N : real[j]}
           filled(i) ==
             CASE st.fill = "null"     -> IF st.fn = "count" THEN <<0, 1>> ELSE Null   \* count of nothing is 0
               [] st.fill = "number"   -> <<FillNum, 1>>
               [] st.fill = "previous" -> IF prevs(i) = {} THEN Null ELSE val[MaxOf(prevs(i))]
               [] st.fill = "linear"   -> IF prevs(i) = {} \/ nexts(i) = {} THEN Null
                                          ELSE LET a == MaxOf(prevs(i))  b == MinOf(nexts(i))
                                               IN Lin(i, a, val[a], b, val[b])
               [] OTHER -> Null
       IN [i \in 1..N |-> [t |-> ws[i], v |-> IF real[i] THEN val[i] ELSE filled(i)]]

\* rows of one result series of a raw select, ascending: one row per point (single field), or one row per
\* (series, time) with both fields.  Rows of different series with the same time have no defined
\* order in InfluxQL; here they are ordered by series index and the harness compares runs of equal
\* time as multisets.
RawRows(st, P) ==
  IF st.field # "both"
  THEN LET q == SortF(P, [p \in P |-> p.t * 10 + p.s]) IN [i \in 1..Len(q) |-> [t |-> q[i].t, v |-> <<q[i].x, 1>>]]
  ELSE LET K == {<<p.s, p.t>> : p \in P}
           q == SortF(K, [k \in K |-> k[2] * 10 + k[1]])
           fv(k, f) == LET M == {p \in P : p.s = k[1] /\ p.t = k[2] /\ p.f = f}
                       IN IF M = {} THEN Null ELSE <<(CHOOSE p \in M : TRUE).x, 1>>
       IN [i \in 1..Len(q) |-> [t |-> q[i][2], v |-> fv(q[i], "v"), w |-> fv(q[i], "s")]]

Cut(st, rows) ==   \* OFFSET m then LIMIT n, per result series
  LET n == Len(rows)
      lo == st.offrows + 1
      hi == IF st.limit = 0 THEN n ELSE IF st.offrows + st.limit < n THEN st.offrows + st.limit ELSE n
  IN IF lo > hi THEN <<>> ELSE SubSeq(rows, lo, hi)

\* the tag sets SLIMIT / SOFFSET count: every series of the measurement that exists in the data (any
\* field, any time) and matches the tag predicate, whether or not it contributes a row  (CALIBRATED)
TagSets(st, D) == {GroupKey(st, p.s) : p \in {p \in D : SeriesTab[p.s].m = Meas /\ PredOK(st, p.s)}}
\* ... in the order of the index's tag-set keys "k|v|k|v" built from the tags the series HAS, ascending also
\* under ORDER BY time DESC (CALIBRATED); it differs from the order of the result series for two GROUP BY
\* tags: (a,"") < (a,x) < (b,x) < ("",x)
SLSeq(st, g) == SelectSeq([i \in 1..Len(g) |-> IF g[i] = "" THEN 0
                                               ELSE (IF st.group[i] = "t1" THEN 1 ELSE 2) * 4 + Rank(g[i]) + 1],
                          LAMBDA d : d # 0)
SLNum(st, g) == LET q == SLSeq(st, g)
                IN (IF Len(q) >= 1 THEN q[1] * 16 ELSE 0) + (IF Len(q) >= 2 THEN q[2] ELSE 0)
SLWindow(st, G) ==    \* the set of tag sets that SLIMIT n SOFFSET m keeps
  LET q == SortF(G, [g \in G |-> SLNum(st, g)])
      a == st.soffset + 1
      b == IF st.slimit = 0 THEN Len(q) ELSE IF st.soffset + st.slimit < Len(q) THEN st.soffset + st.slimit ELSE Len(q)
  IN {q[i] : i \in a..b}

\* Keep(g): which tag sets survive SLIMIT / SOFFSET for a given point set
EvalOver(st, P, sel) ==
  LET gs == Dir(st, SortF(sel, [g \in sel |-> KeyNum(g)]))     \* result series in direction order  (CALIBRATED)
      rowsOf(g) == LET Pg == {p \in P : GroupKey(st, p.s) = g}
                   IN IF Pg = {} THEN <<>>
                      ELSE Cut(st, IF st.fn = "raw" THEN Dir(st, RawRows(st, Pg)) ELSE AggRows(st, Pg))
      all == [i \in 1..Len(gs) |-> [tags |-> gs[i], rows |-> rowsOf(gs[i])]]
  IN SelectSeq(all, LAMBDA r : r.rows # <<>>)

Eval(st, D) == EvalOver(st, Sel(st, D), SLWindow(st, TagSets(st, D)))

\* Recorded deviation of the code (known finding, not the property): SLIMIT / SOFFSET are applied by every
\* shard to ITS OWN tag sets.  With shards of W time units on one node the code computes this:
ShardOf(t, W) == t \div W
EvalSLimitPerShard(st, D, W) ==
  LET K == {ShardOf(p.t, W) : p \in D}
      keep == [k \in K |-> SLWindow(st, TagSets(st, {p \in D : ShardOf(p.t, W) = k}))]
      P == {p \in Sel(st, D) : GroupKey(st, p.s) \in keep[ShardOf(p.t, W)]}
  IN EvalOver(st, P, {GroupKey(st, p.s) : p \in P})

\* a raw select whose LIMIT / OFFSET may cut through rows of equal time of different series has no
\* defined answer: excluded from generation
Amb(st, D) == /\ st.fn = "raw" /\ (st.limit > 0 \/ st.offrows > 0)
              /\ \E p, q \in Sel(st, D) : p.s # q.s /\ p.t = q.t /\ GroupKey(st, p.s) = GroupKey(st, q.s)

\* integer-typed results (count; sum/min/max/first/last/spread of an integer field) - the harness needs
\* it for fill(linear), which truncates for integers
WellFormed(st) ==
  /\ st.fn \in {"raw", "count", "sum", "mean", "min", "max", "first", "last", "spread", "median"}
  /\ st.field \in Fields \cup {"both"}
  /\ (st.field = "both" => st.fn = "raw" /\ Fields = {"v", "s"})
  /\ (st.field = "s" => st.fn \in {"raw", "count", "first", "last"} /\ st.fill \in {"none", "null", "previous"})
  /\ (st.interval = 0 => st.fill = "none" /\ st.offset = 0)
  /\ (st.interval > 0 => st.fn # "raw" /\ st.lo # NoBound /\ st.hi # NoBound /\ st.offset \in 0..(st.interval - 1))
  /\ (st.lo # NoBound /\ st.hi # NoBound => st.lo <= st.hi)
  \* OFFSET without LIMIT and SOFFSET without SLIMIT are documented as unsupported ("can cause inconsistent
  \* query results"; the code truncates every series to m+1 points, resp. returns nothing): not generated
  /\ (st.offrows > 0 => st.limit > 0)
  /\ (st.soffset > 0 => st.slimit > 0)

-----------------------------------------------------------------------------
(* Sanity theorems about Eval, checked exhaustively by TLC on a small domain (SpecData: every data   *)
(* set reachable with the configured constants; for every statement of the families below).          *)

Base == [fn |-> "count", field |-> "v", lo |-> NoBound, hi |-> NoBound, pred |-> [k |-> "", op |-> "=", v |-> ""],
         interval |-> 0, offset |-> 0, group |-> <<>>, fill |-> "none", desc |-> FALSE,
         limit |-> 0, offrows |-> 0, slimit |-> 0, soffset |-> 0]
Preds == {[k |-> "", op |-> "=", v |-> ""]} \cup (IF Wide THEN {[k |-> "t1", op |-> "!=", v |-> "a"]} ELSE {})
Ranges == {<<NoBound, NoBound>>, <<0, MaxT>>} \cup (IF Wide THEN {<<1, MaxT - 1>>} ELSE {})
Groups == {<<>>, <<"t1">>}
AggFns == {"count", "sum", "mean", "min", "max", "first", "last", "spread", "median"}
Fills == {"none", "null", "number", "previous", "linear"}
\* shapes: where / grouping part of a statement (without function, fill, order and limits)
Shapes == {[Base EXCEPT !.lo = r[1], !.hi = r[2], !.pred = p, !.group = g, !.interval = i[1], !.offset = i[2]] :
             r \in Ranges, p \in Preds, g \in Groups, i \in {<<0, 0>>, <<2, 1>>} \cup (IF Wide THEN {<<2, 0>>} ELSE {})}
WShapes == {s \in Shapes : WellFormed(s)}
WinShapes == {s \in WShapes : s.interval > 0}

Le(a, b) == a[1] * b[2] <= b[1] * a[2]           \* rationals with positive denominators
EqR(a, b) == a[1] * b[2] = b[1] * a[2]
RECURSIVE SeqSum(_)
SeqSum(q) == IF q = <<>> THEN 0 ELSE q[1] + SeqSum(SubSeq(q, 2, Len(q)))
TotalOf(res) == SeqSum([i \in 1..Len(res) |-> SeqSum([j \in 1..Len(res[i].rows) |-> res[i].rows[j].v[1]])])
RowsN(res) == SeqSum([i \in 1..Len(res) |-> Len(res[i].rows)])
NonEmpty(res) == SelectSeq(res, LAMBDA r : r.rows # <<>>)

\* count = number of selected points; raw returns exactly the selected points; nothing of m2 or of
\* another field is counted
C11_CountIsCardinality ==
  \A s \in WShapes :
     LET n == Cardinality(Sel(s, data)) IN
     /\ TotalOf(Eval([s EXCEPT !.fn = "count"], data)) = n
     /\ (s.interval = 0 => RowsN(Eval([s EXCEPT !.fn = "raw"], data)) = n)
     /\ n <= Cardinality({p \in data : SeriesTab[p.s].m = Meas /\ p.f = "v"})

\* the same window of the same series under different functions: min <= first,last,mean,median <= max,
\* spread = max - min, mean * count = sum
C11_OrderOfAggregates ==
  \A s \in WShapes :
    LET E == [fn \in AggFns |-> Eval([s EXCEPT !.fn = fn], data)]
        mn == E["min"]
    IN /\ \A fn \in AggFns : Len(E[fn]) = Len(mn) /\ \A i \in 1..Len(mn) : Len(E[fn][i].rows) = Len(mn[i].rows)
       /\ \A i \in 1..Len(mn) : \A j \in 1..Len(mn[i].rows) :
            LET V == [fn \in AggFns |-> E[fn][i].rows[j].v] IN
            /\ Le(V["min"], V["mean"]) /\ Le(V["mean"], V["max"]) /\ Le(V["min"], V["median"]) /\ Le(V["median"], V["max"])
            /\ Le(V["min"], V["first"]) /\ Le(V["first"], V["max"]) /\ Le(V["min"], V["last"]) /\ Le(V["last"], V["max"])
            /\ V["spread"][1] = V["max"][1] - V["min"][1]
            /\ EqR(<<V["mean"][1] * V["count"][1], V["mean"][2]>>, V["sum"])

\* ORDER BY time DESC is the reverse of the ascending result (series and rows) - except fill(previous),
\* which looks at the previously ITERATED window
C11_DescIsReverse ==
  \A s \in WShapes : \A fn \in {"raw", "count", "min"} \cup (IF Wide THEN {"last"} ELSE {}) :
   \A fl \in (IF Wide THEN Fills \ {"previous"} ELSE {"none", "linear"}) :
    LET st == [s EXCEPT !.fn = fn, !.fill = fl] IN
    WellFormed(st) =>
      LET up == Eval(st, data)
          dn == Eval([st EXCEPT !.desc = TRUE], data)
      IN /\ Len(up) = Len(dn)
         /\ \A i \in 1..Len(up) : /\ dn[Len(up) + 1 - i].tags = up[i].tags
                                  /\ \/ dn[Len(up) + 1 - i].rows = Rev(up[i].rows)
                                     \/ fn = "raw" /\ Len(s.group) = 0   \* ties between series: multiset only

\* LIMIT n OFFSET m is a window of the unlimited rows of every series
C11_LimitIsWindow ==
  \A s \in WShapes : \A fn \in {"raw", "first"} : \A fl \in {"none", "previous"} : \A d \in BOOLEAN :
    LET st == [s EXCEPT !.fn = fn, !.fill = fl, !.desc = d] IN
    WellFormed(st) =>
      LET full == Eval(st, data) IN
      \A lim \in {<<1, 1>>} \cup (IF Wide THEN {<<2, 0>>} ELSE {}) :
        LET stl == [st EXCEPT !.limit = lim[1], !.offrows = lim[2]] IN
        Eval(stl, data) = NonEmpty([i \in 1..Len(full) |-> [tags |-> full[i].tags, rows |-> Cut(stl, full[i].rows)]])

\* SLIMIT / SOFFSET select a window of the result series
C11_SLimitIsWindow ==
  \A s \in WShapes : \A fn \in {"raw", "count"} : \A d \in BOOLEAN :
    LET st == [s EXCEPT !.fn = fn, !.desc = d] IN
    WellFormed(st) =>
      LET full == Eval(st, data) IN
      \A sl \in {<<1, 1>>} \cup (IF Wide THEN {<<1, 0>>} ELSE {}) :
        LET cut == Eval([st EXCEPT !.slimit = sl[1], !.soffset = sl[2]], data) IN
        /\ Len(cut) <= 1
        /\ \A i \in 1..Len(cut) : \E j \in 1..Len(full) : cut[i] = full[j]
        \* the recorded deviation coincides with Eval when everything is in one shard
        /\ EvalSLimitPerShard([st EXCEPT !.slimit = sl[1], !.soffset = sl[2]], data, MaxT + 1) = cut

\* fill(none) = the non-empty windows of any other fill; fill never changes a non-empty window and always
\* produces every window of the range
C11_FillOnlyFillsGaps ==
  \A s \in WinShapes : \A fn \in {"mean"} \cup (IF Wide THEN {"sum"} ELSE {}) : \A d \in BOOLEAN :
    LET st == [s EXCEPT !.fn = fn, !.desc = d]
        none == Eval(st, data)
    IN \A fl \in (IF Wide THEN Fills \ {"none"} ELSE {"previous", "linear"}) :
        LET fill == Eval([st EXCEPT !.fill = fl], data) IN
        /\ Len(none) = Len(fill)
        /\ \A i \in 1..Len(none) :
            /\ none[i].tags = fill[i].tags
            /\ \A j \in 1..Len(none[i].rows) : \E k \in 1..Len(fill[i].rows) : fill[i].rows[k] = none[i].rows[j]
            /\ Len(fill[i].rows) = (WinStart(st, st.hi) - WinStart(st, st.lo)) \div st.interval + 1

\* what is computed per shard / per node and merged gives the same as one evaluation over all points,
\* for every split of the points into two parts
C11_MergeOK ==
  LET P == {p \in data : p.f = "v"} IN
  \A fn \in {"count", "sum", "min", "max", "first", "last"} : \A A \in SUBSET P :
    P # {} => Combine(fn, A, P \ A).v = Reduce(fn, P).v /\ (IsSelector(fn) => Combine(fn, A, P \ A).t = Reduce(fn, P).t)
=============================================================================
