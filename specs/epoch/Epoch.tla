------------------------------- MODULE Epoch -------------------------------
(***************************************************************************)
(* X03 - the WRITE / DELETE GUARD protocol of a tsdb.Store shard           *)
(* (specification growth; deepens C10 "points written after the delete     *)
(* completed are kept", "every schedule in which a delete overlaps a       *)
(* write").                                                                *)
(*                                                                         *)
(* Code modelled (one action per critical section of the real code):       *)
(*   tsdb/epoch_tracker.go  epochTracker{epoch,largest,writes,deletes},    *)
(*                          StartWrite / EndWrite / WaitDelete /           *)
(*                          epochWaiter.Wait / epochWaiter.Done            *)
(*   tsdb/guard.go          guard.Matches / Wait / Done                    *)
(*   tsdb/store.go          WriteToShardWithContext: StartWrite; for each  *)
(*                          returned guard: if Matches(points) then Wait;  *)
(*                          engine write; EndWrite.                        *)
(*                          DeleteSeries / DeleteMeasurement: WaitDelete   *)
(*                          (guard installed); waiter.Wait (all earlier    *)
(*                          writes ended); engine delete; waiter.Done.     *)
(*                                                                         *)
(* Abstract shard content: a set of <<writer, key>> pairs.  A key stands   *)
(* for one (series, timestamp) slot; the batch of a writer is a set of     *)
(* keys, the selection of a delete is a set of keys; guard.Matches is      *)
(* "batch and selection intersect" (its exactness on real points is        *)
(* X03d, specs/epoch/GuardMatch.tla).  The ENGINE write and the ENGINE     *)
(* delete are NOT atomic: they touch one key per step, so a write and a    *)
(* delete that overlap in time can leave a mix; the protocol is what has   *)
(* to exclude the overlap.                                                 *)
(*                                                                         *)
(* Properties                                                              *)
(*  X03a  a delete never removes part of a write batch: for a write W and  *)
(*        a delete D whose selections intersect either every point of W    *)
(*        in D's selection is gone once both finished (W's engine write    *)
(*        ended before D's engine delete began) or D removed none of them  *)
(*        (W waited for D) - never a mix.                                  *)
(*        X03a_NoOverlap (mechanism), X03a_AllOrNothing (outcome).         *)
(*  X03b  a write that starts after a delete has returned keeps all its    *)
(*        points as far as that delete is concerned, and does not even see *)
(*        its guard.                X03b_LaterWritesKept, X03b_NoStaleGuard*)
(*  X03c  a write that matches no pending delete's guard is never delayed; *)
(*        a blocked writer is blocked by a pending MATCHING delete only,   *)
(*        a blocked deleter by an EARLIER unfinished write only; there is  *)
(*        no deadlock (every waiter is released when the others finish).   *)
(*        X03c_BlockedOnlyByMatching, X03c_DeleterWaitsEarlierOnly,        *)
(*        X03c_NoDeadlock (ENABLED), X03c_Terminates (temporal, WF).       *)
(*  X03d  guard.Matches is exact for the delete's selection: GuardMatch.tla*)
(*  plus the accounting of the tracker the real object is compared with:   *)
(*        X03_Accounting (writes counter, pending counter per delete).     *)
(*                                                                         *)
(* Dev (deviations, negative controls only; the code as found has none):   *)
(*   "noMatchWait"  the writer ignores the guards (X03a fails)             *)
(*   "noWaitWrites" the deleter does not wait for earlier writes (X03a)    *)
(*   "doneAll"      EndWrite signals every pending delete, also later ones *)
(*                  (accounting: pending goes negative / delete released   *)
(*                  early)                                                 *)
(***************************************************************************)
EXTENDS Integers, FiniteSets, TLC

CONSTANTS Writers, Deleters, Keys, Batches, Sels, Dev

ASSUME /\ Batches \subseteq (SUBSET Keys) /\ {} \notin Batches
       /\ Sels \subseteq (SUBSET Keys) /\ {} \notin Sels

VARIABLES
  batch,      \* [Writers -> SUBSET Keys]    points of the write (chosen at Init)
  sel,        \* [Deleters -> SUBSET Keys]   selection of the delete (chosen at Init)
  epoch,      \* epochTracker.epoch
  largest,    \* epochTracker.largest
  writes,     \* epochTracker.writes
  din,        \* [Deleters -> BOOLEAN]       d has an entry in epochTracker.deletes
  dgen,       \* [Deleters -> Nat]           its key (generation), 0 before WaitDelete
  dpend,      \* [Deleters -> Int]           epochDeleteState.pending
  gdone,      \* [Deleters -> BOOLEAN]       guard.done
  wpc,        \* [Writers -> {"idle","check","ewrite","written","done"}]
  wgen,       \* [Writers -> Nat]
  wguards,    \* [Writers -> SUBSET Deleters] guards returned by StartWrite that are still to be passed
  wtodo,      \* [Writers -> SUBSET Keys]    keys the engine write has not written yet
  dpc,        \* [Deleters -> {"idle","waitw","edelete","deleted","done"}]
  dtodo,      \* [Deleters -> SUBSET Keys]   keys the engine delete has not visited yet
  content,    \* SUBSET (Writers \X Keys)    abstract shard content
  removed,    \* ghost: [Deleters -> SUBSET (Writers \X Keys)] what each delete removed
  wsnap,      \* ghost: [Writers -> SUBSET Deleters] guards returned by StartWrite
  doneAtStart \* ghost: [Writers -> SUBSET Deleters] deletes that had returned when the write started

vars == <<batch, sel, epoch, largest, writes, din, dgen, dpend, gdone, wpc, wgen, wguards, wtodo,
          dpc, dtodo, content, removed, wsnap, doneAtStart>>

Matches(w, d) == batch[w] \cap sel[d] # {}

Init ==
  /\ batch \in [Writers -> Batches]
  /\ sel \in [Deleters -> Sels]
  /\ epoch = 0 /\ largest = 0 /\ writes = 0
  /\ din = [d \in Deleters |-> FALSE]
  /\ dgen = [d \in Deleters |-> 0]
  /\ dpend = [d \in Deleters |-> 0]
  /\ gdone = [d \in Deleters |-> FALSE]
  /\ wpc = [w \in Writers |-> "idle"]
  /\ wgen = [w \in Writers |-> 0]
  /\ wguards = [w \in Writers |-> {}]
  /\ wtodo = [w \in Writers |-> {}]
  /\ dpc = [d \in Deleters |-> "idle"]
  /\ dtodo = [d \in Deleters |-> {}]
  /\ content = {}
  /\ removed = [d \in Deleters |-> {}]
  /\ wsnap = [w \in Writers |-> {}]
  /\ doneAtStart = [w \in Writers |-> {}]

(* ------------------------------ writers ------------------------------ *)

\* epochTracker.StartWrite (one critical section under e.mu)
StartWrite(w) ==
  /\ wpc[w] = "idle"
  /\ epoch' = epoch + 1
  /\ wgen' = [wgen EXCEPT ![w] = epoch + 1]
  /\ writes' = writes + 1
  /\ LET gs == {d \in Deleters : din[d]} IN
       /\ wsnap' = [wsnap EXCEPT ![w] = gs]
       /\ IF gs = {}
            THEN /\ wpc' = [wpc EXCEPT ![w] = "ewrite"]
                 /\ wtodo' = [wtodo EXCEPT ![w] = batch[w]]
                 /\ wguards' = wguards
            ELSE /\ wpc' = [wpc EXCEPT ![w] = "check"]
                 /\ wguards' = [wguards EXCEPT ![w] = gs]
                 /\ wtodo' = wtodo
  /\ doneAtStart' = [doneAtStart EXCEPT ![w] = {d \in Deleters : dpc[d] = "done"}]
  /\ UNCHANGED <<batch, sel, largest, din, dgen, dpend, gdone, dpc, dtodo, content, removed>>

\* store.go: `if guard.Matches(points) { guard.Wait() }` for one of the returned guards.
\* (The code walks the slice in order; passing is monotone - done never reverts - so any order is equivalent.)
PassGuard(w, g) ==
  /\ wpc[w] = "check"
  /\ g \in wguards[w]
  /\ \/ "noMatchWait" \in Dev
     \/ ~Matches(w, g)
     \/ gdone[g]
  /\ LET rest == wguards[w] \ {g} IN
       /\ wguards' = [wguards EXCEPT ![w] = rest]
       /\ IF rest = {}
            THEN /\ wpc' = [wpc EXCEPT ![w] = "ewrite"]
                 /\ wtodo' = [wtodo EXCEPT ![w] = batch[w]]
            ELSE UNCHANGED <<wpc, wtodo>>
  /\ UNCHANGED <<batch, sel, epoch, largest, writes, din, dgen, dpend, gdone, wgen, dpc, dtodo, content,
                 removed, wsnap, doneAtStart>>

\* Shard.WritePoints: one key of the batch per step (series creation / field / cache entry are separate
\* critical sections in the real engine)
EngineWriteKey(w, k) ==
  /\ wpc[w] = "ewrite"
  /\ k \in wtodo[w]
  /\ content' = content \cup {<<w, k>>}
  /\ wtodo' = [wtodo EXCEPT ![w] = @ \ {k}]
  /\ wpc' = [wpc EXCEPT ![w] = IF wtodo[w] = {k} THEN "written" ELSE "ewrite"]
  /\ UNCHANGED <<batch, sel, epoch, largest, writes, din, dgen, dpend, gdone, wgen, wguards, dpc, dtodo,
                 removed, wsnap, doneAtStart>>

\* epochTracker.EndWrite (one critical section under e.mu; state.done() under the state's own lock)
EndWrite(w) ==
  /\ wpc[w] = "written"
  /\ dpend' = [d \in Deleters |->
                 IF /\ din[d]
                    /\ wgen[w] <= largest
                    /\ (wgen[w] <= dgen[d] \/ "doneAll" \in Dev)
                 THEN dpend[d] - 1 ELSE dpend[d]]
  /\ writes' = writes - 1
  /\ wpc' = [wpc EXCEPT ![w] = "done"]
  /\ UNCHANGED <<batch, sel, epoch, largest, din, dgen, gdone, wgen, wguards, wtodo, dpc, dtodo, content,
                 removed, wsnap, doneAtStart>>

(* ------------------------------ deleters ------------------------------ *)

\* epochTracker.WaitDelete(guard): installs the guard (one critical section under e.mu)
WaitDelete(d) ==
  /\ dpc[d] = "idle"
  /\ epoch' = epoch + 1
  /\ largest' = epoch + 1
  /\ dgen' = [dgen EXCEPT ![d] = epoch + 1]
  /\ dpend' = [dpend EXCEPT ![d] = writes]
  /\ din' = [din EXCEPT ![d] = TRUE]
  /\ dpc' = [dpc EXCEPT ![d] = "waitw"]
  /\ UNCHANGED <<batch, sel, writes, gdone, wpc, wgen, wguards, wtodo, dtodo, content, removed, wsnap, doneAtStart>>

\* epochWaiter.Wait returns: every write that was pending at WaitDelete has ended
WaitReturns(d) ==
  /\ dpc[d] = "waitw"
  /\ (dpend[d] <= 0 \/ "noWaitWrites" \in Dev)
  /\ dpc' = [dpc EXCEPT ![d] = "edelete"]
  /\ dtodo' = [dtodo EXCEPT ![d] = sel[d]]
  /\ UNCHANGED <<batch, sel, epoch, largest, writes, din, dgen, dpend, gdone, wpc, wgen, wguards, wtodo, content,
                 removed, wsnap, doneAtStart>>

\* Shard.DeleteSeriesRange / DeleteMeasurement: one key of the selection per step
EngineDeleteKey(d, k) ==
  /\ dpc[d] = "edelete"
  /\ k \in dtodo[d]
  /\ LET hit == {x \in content : x[2] = k} IN
       /\ content' = content \ hit
       /\ removed' = [removed EXCEPT ![d] = @ \cup hit]
  /\ dtodo' = [dtodo EXCEPT ![d] = @ \ {k}]
  /\ dpc' = [dpc EXCEPT ![d] = IF dtodo[d] = {k} THEN "deleted" ELSE "edelete"]
  /\ UNCHANGED <<batch, sel, epoch, largest, writes, din, dgen, dpend, gdone, wpc, wgen, wguards, wtodo,
                 wsnap, doneAtStart>>

\* epochWaiter.Done: entry removed from the map (under e.mu), then guard.Done()
\* (two critical sections in the code; between them no StartWrite can see the entry and nobody else reads done)
DeleteDone(d) ==
  /\ dpc[d] = "deleted"
  /\ din' = [din EXCEPT ![d] = FALSE]
  /\ gdone' = [gdone EXCEPT ![d] = TRUE]
  /\ dpc' = [dpc EXCEPT ![d] = "done"]
  /\ UNCHANGED <<batch, sel, epoch, largest, writes, dgen, dpend, wpc, wgen, wguards, wtodo, dtodo, content,
                 removed, wsnap, doneAtStart>>

WriterStep(w) == \/ StartWrite(w) \/ EndWrite(w)
                 \/ \E g \in Deleters : PassGuard(w, g)
                 \/ \E k \in Keys : EngineWriteKey(w, k)
DeleterStep(d) == \/ WaitDelete(d) \/ WaitReturns(d) \/ DeleteDone(d)
                  \/ \E k \in Keys : EngineDeleteKey(d, k)

Next == (\E w \in Writers : WriterStep(w)) \/ (\E d \in Deleters : DeleterStep(d))

AllDone == (\A w \in Writers : wpc[w] = "done") /\ (\A d \in Deleters : dpc[d] = "done")

Spec == Init /\ [][Next]_vars
FairSpec == Spec /\ \A w \in Writers : WF_vars(WriterStep(w)) /\ \A d \in Deleters : WF_vars(DeleterStep(d))

(* ------------------------------ properties ------------------------------ *)

WPcs == {"idle", "check", "ewrite", "written", "done"}
DPcs == {"idle", "waitw", "edelete", "deleted", "done"}

TypeOK ==
  /\ epoch \in Nat /\ largest \in Nat /\ writes \in Int
  /\ wpc \in [Writers -> WPcs] /\ dpc \in [Deleters -> DPcs]
  /\ dpend \in [Deleters -> Int]
  /\ content \subseteq (Writers \X Keys)

WInFlight(w) == wpc[w] \in {"check", "ewrite", "written"}
WFinished(w) == wpc[w] \in {"written", "done"}
DFinished(d) == dpc[d] \in {"deleted", "done"}

\* writer w cannot get past its guards right now
WBlocked(w) == wpc[w] = "check" /\ \A g \in wguards[w] : Matches(w, g) /\ ~gdone[g]
\* writer w is at (or will, without anybody else moving, arrive at) the engine write
WReady(w) == \/ wpc[w] = "ewrite"
             \/ wpc[w] = "check" /\ \A g \in wguards[w] : ~Matches(w, g) \/ gdone[g]
DBlocked(d) == dpc[d] = "waitw" /\ dpend[d] > 0
DReady(d) == dpc[d] = "edelete" \/ (dpc[d] = "waitw" /\ dpend[d] <= 0)

X03a_NoOverlap ==
  \A w \in Writers, d \in Deleters :
     Matches(w, d) => ~(wpc[w] = "ewrite" /\ dpc[d] = "edelete")

X03a_AllOrNothing ==
  \A w \in Writers, d \in Deleters :
     (WFinished(w) /\ DFinished(d)) =>
        LET I == batch[w] \cap sel[d] IN
          \/ \A k \in I : <<w, k>> \notin content        \* all of them are gone
          \/ \A k \in I : <<w, k>> \notin removed[d]     \* or D took none of them

X03b_LaterWritesKept ==
  \A w \in Writers :
     WFinished(w) =>
        \A k \in batch[w] :
           \/ <<w, k>> \in content
           \/ \E d \in Deleters \ doneAtStart[w] : <<w, k>> \in removed[d]

X03b_NoStaleGuard == \A w \in Writers : wsnap[w] \cap doneAtStart[w] = {}

X03c_BlockedOnlyByMatching ==
  \A w \in Writers :
     (wpc[w] = "check" /\ ~WReady(w)) =>
        \E d \in wguards[w] : Matches(w, d) /\ dpc[d] \in {"waitw", "edelete", "deleted"} /\ dgen[d] < wgen[w]

X03c_DeleterWaitsEarlierOnly ==
  \A d \in Deleters :
     DBlocked(d) => \E w \in Writers : WInFlight(w) /\ wgen[w] < dgen[d]

X03c_NoDeadlock == AllDone \/ ENABLED Next

X03c_Terminates == <>AllDone

X03_Accounting ==
  /\ writes = Cardinality({w \in Writers : WInFlight(w)})
  /\ \A d \in Deleters :
        din[d] => dpend[d] = Cardinality({w \in Writers : WInFlight(w) /\ wgen[w] < dgen[d]})
  /\ \A d \in Deleters : din[d] <=> dpc[d] \in {"waitw", "edelete", "deleted"}
  /\ \A d \in Deleters : gdone[d] <=> dpc[d] = "done"

\* vacuity probes (expected to be VIOLATED: the interesting situations are reachable)
Probe_WriterBlocked == ~(\E w \in Writers : WBlocked(w))
Probe_DeleterBlocked == ~(\E d \in Deleters : DBlocked(d))
Probe_AllRemoved == ~(AllDone /\ \E w \in Writers, d \in Deleters : Matches(w, d) /\ \A k \in batch[w] \cap sel[d] : <<w, k>> \in removed[d])
Probe_NoneRemoved == ~(AllDone /\ \E w \in Writers, d \in Deleters : Matches(w, d) /\ \A k \in batch[w] \cap sel[d] : <<w, k>> \in content)
Probe_PassNonMatching == ~(\E w \in Writers, d \in Deleters : wpc[w] = "ewrite" /\ d \in wsnap[w] /\ ~Matches(w, d) /\ dpc[d] = "edelete")
=============================================================================
