------------------------------ MODULE EpochGen ------------------------------
(***************************************************************************)
(* Behaviour generator for Epoch.tla (X03).  The controllable steps of the *)
(* replay harness are logged with the model's projected state after the    *)
(* step; PassGuard and WaitReturns are what the real goroutines do on      *)
(* their own (store.go's guard loop, epochWaiter.Wait) and are not logged: *)
(* the projection says who is READY (at, or able to reach without anybody  *)
(* else moving, its engine step) and who is BLOCKED, which is what the     *)
(* harness observes on the real objects (arrived at the engine gate /      *)
(* parked in sync.Cond.Wait inside guard.Wait resp. epochDeleteState.Wait).*)
(***************************************************************************)
EXTENDS Epoch, Sequences, Json

VARIABLE hist
gvars == <<vars, hist>>

Proj == [epoch |-> epoch, largest |-> largest, writes |-> writes,
         dels |-> {[d |-> d, gen |-> dgen[d], pend |-> dpend[d]] : d \in {x \in Deleters : din[x]}},
         gdone |-> {d \in Deleters : gdone[d]},
         wready |-> {w \in Writers : WReady(w)},
         wblocked |-> {w \in Writers : wpc[w] = "check" /\ ~WReady(w)},
         dready |-> {d \in Deleters : DReady(d)},
         dblocked |-> {d \in Deleters : DBlocked(d)}]

Log(a, p, k, obs) == hist' = Append(hist, [a |-> a, p |-> p, k |-> k, obs |-> obs, st |-> Proj'])

GNext ==
  \/ \E w \in Writers :
       \/ StartWrite(w) /\ Log("StartWrite", w, 0, [gen |-> wgen'[w], guards |-> wsnap'[w]])
       \/ EndWrite(w) /\ Log("EndWrite", w, 0, [gen |-> wgen[w]])
       \/ \E k \in Keys : EngineWriteKey(w, k) /\ Log("EngineWriteKey", w, k, [x |-> 0])
       \/ \E g \in Deleters : PassGuard(w, g) /\ UNCHANGED hist
  \/ \E d \in Deleters :
       \/ WaitDelete(d) /\ Log("WaitDelete", d, 0, [gen |-> dgen'[d], pend |-> dpend'[d]])
       \/ DeleteDone(d) /\ Log("DeleteDone", d, 0, [x |-> 0])
       \/ \E k \in Keys : EngineDeleteKey(d, k) /\ Log("EngineDeleteKey", d, k, [x |-> 0])
       \/ WaitReturns(d) /\ UNCHANGED hist

GInit == Init /\ hist = <<>>
GSpec == GInit /\ [][GNext]_gvars

Out == [batch |-> batch, sel |-> sel, steps |-> hist,
        final |-> [content |-> content, removed |-> removed]]
Emit == AllDone => PrintT(<<"BEHAVIOUR", ToJson(Out)>>)
=============================================================================
