----------------------------- MODULE GuardMatch -----------------------------
(***************************************************************************)
(* X03d - guard.Matches (tsdb/guard.go) against the selection of the       *)
(* delete that installed the guard.                                        *)
(*                                                                         *)
(* A delete (Store.DeleteSeries / DeleteMeasurement) selects the points    *)
(*   time in [lo, hi] (inclusive)  /\  measurement in names  /\  Cond      *)
(* where Cond is an InfluxQL tag predicate evaluated per series with the   *)
(* documented semantics "a tag the series does not have is the empty       *)
(* string" (so  host != 'a',  host = '',  host !~ /a/,  host =~ /.*/  all  *)
(* select series WITHOUT a host tag), "_name" is the measurement name.     *)
(* X03d_NoFalseNegative: every point in the selection makes                *)
(*   guard.Matches({point}) true; Matches(batch) = \E point : Matches.     *)
(* The guard may be conservative (true for points outside the selection);  *)
(* that costs a delay, not correctness, and is only counted.               *)
(*                                                                         *)
(* This module is a case generator: TLC enumerates the selections of a     *)
(* small domain (one state per selection) and prints for each the set of   *)
(* points the selection contains; the harness evaluates the real           *)
(* guard.Matches on the real models.Point values and - independently of    *)
(* this evaluator - runs the real Store.DeleteSeries with the same         *)
(* condition on a shard holding exactly these points.                      *)
(*                                                                         *)
(* Regular expressions are modelled by their extension over the finite     *)
(* universe of strings that occur (Strs); the harness uses the Go regex in *)
(* the table below.                                                        *)
(***************************************************************************)
EXTENDS Integers, FiniteSets, Sequences, TLC, Json

CONSTANTS Family,     \* "A": all expressions up to one AND/OR, full time range;  "B": atoms x time windows x names
          Deep        \* TRUE: family A also enumerates (a op b) op c with c from a reduced atom set

VARIABLE sx          \* the selection of this state

MinT == -1000        \* stands for influxql.MinTime
MaxT == 1000         \* stands for influxql.MaxTime

Names == {"cpu", "mem"}
Hosts == {"", "a", "b"}          \* "" = the point has no host tag
Regions == {"", "x"}
Strs == {"", "a", "b", "x", "cpu", "mem"}

\* regex id -> extension over Strs   (Go side: ra=/^a$/  rany=/.*/  rempty=/^$/  rab=/[ab]/  rcpu=/^c/)
RegexExt == [ra |-> {"a"}, rany |-> Strs, rempty |-> {""}, rab |-> {"a", "b"}, rcpu |-> {"cpu"}]

TagVals == [host |-> {"a", "b", ""}, region |-> {"x", ""}, _name |-> {"cpu"}]
TagRegex == [host |-> {"ra", "rany", "rempty", "rab"}, region |-> {"rany"}, _name |-> {"rcpu"}]
Keys == {"host", "region", "_name"}

Atoms ==
  {[t |-> "true"], [t |-> "false"]}
  \cup {[t |-> "cmp", op |-> o, key |-> k, val |-> v] : o \in {"=", "!="}, k \in {"host"}, v \in TagVals["host"]}
  \cup {[t |-> "cmp", op |-> o, key |-> k, val |-> v] : o \in {"=", "!="}, k \in {"region"}, v \in TagVals["region"]}
  \cup {[t |-> "cmp", op |-> o, key |-> k, val |-> v] : o \in {"=", "!="}, k \in {"_name"}, v \in TagVals["_name"]}
  \cup {[t |-> "cmp", op |-> o, key |-> k, val |-> v] : o \in {"=~", "!~"}, k \in {"host"}, v \in TagRegex["host"]}
  \cup {[t |-> "cmp", op |-> o, key |-> k, val |-> v] : o \in {"=~", "!~"}, k \in {"region"}, v \in TagRegex["region"]}
  \cup {[t |-> "cmp", op |-> o, key |-> k, val |-> v] : o \in {"=~", "!~"}, k \in {"_name"}, v \in TagRegex["_name"]}
  \cup {[t |-> "cmpref", op |-> o, key |-> "host", val |-> "region"] : o \in {"=", "!="}}   \* host = region (two tags)

SmallAtoms == {a \in Atoms : a.t = "cmp" /\ a.key = "host" /\ a.val \in {"a", "", "rany"}} \cup {[t |-> "false"]}

Bin(S1, S2) == {[t |-> o, l |-> a, r |-> b] : o \in {"and", "or"}, a \in S1, b \in S2}

ExprsA(deep) == Atoms \cup Bin(Atoms, Atoms) \cup (IF deep THEN Bin(Bin(Atoms, Atoms), SmallAtoms) ELSE {})

Points == {[name |-> n, host |-> h, region |-> r] : n \in Names, h \in Hosts, r \in Regions}
TimesB == {MinT, 2, 3, 5, 7, 8, MaxT}
Windows == {<<MinT, MaxT>>, <<3, 7>>, <<5, 5>>, <<MinT, 5>>, <<5, MaxT>>, <<6, 4>>, <<MinT, MinT>>, <<MaxT, MaxT>>}
NameSets == {{"cpu"}, {"mem"}, {"cpu", "mem"}}

TagOf(p, k) == IF k = "_name" THEN p.name ELSE IF k = "host" THEN p.host ELSE p.region

RECURSIVE Eval(_, _)
Eval(e, p) ==
  CASE e.t = "true" -> TRUE
    [] e.t = "false" -> FALSE
    [] e.t = "and" -> Eval(e.l, p) /\ Eval(e.r, p)
    [] e.t = "or" -> Eval(e.l, p) \/ Eval(e.r, p)
    [] e.t = "cmpref" ->
         \* calibrated against the index: equality of two tags holds for series that HAVE both tags with equal
         \* values; "!=" is its complement (so it selects series that have neither tag)
         LET a == TagOf(p, e.key)  b == TagOf(p, e.val) IN
           IF e.op = "=" THEN a # "" /\ a = b ELSE ~(a # "" /\ a = b)
    [] e.t = "cmp" ->
         LET v == TagOf(p, e.key) IN
           CASE e.op = "=" -> v = e.val
             [] e.op = "!=" -> v # e.val
             [] e.op = "=~" -> v \in RegexExt[e.val]
             [] e.op = "!~" -> v \notin RegexExt[e.val]

\* the selection of a delete as a predicate on (point, time)
Selected(s, p, t) == /\ s.lo <= t /\ t <= s.hi
                     /\ p.name \in s.names
                     /\ Eval(s.expr, p)

Sels == IF Family = "A"
          THEN {[expr |-> e, lo |-> MinT, hi |-> MaxT, names |-> Names] : e \in ExprsA(Deep)}
          ELSE {[expr |-> e, lo |-> w[1], hi |-> w[2], names |-> ns] : e \in Atoms, w \in Windows, ns \in NameSets}

TimesOf(s) == IF Family = "A" THEN {5} ELSE TimesB

Init == sx \in Sels
Next == UNCHANGED sx
Spec == Init /\ [][Next]_sx

Case == [sel |-> sx,
         selected |-> {[p |-> p, t |-> t] : p \in Points, t \in TimesOf(sx)} \cap
                      {x \in [p : Points, t : TimesOf(sx)] : Selected(sx, x.p, x.t)}]

\* model-level sanity of the evaluator (De Morgan / missing tag = empty string)
X03d_EvalSane ==
  \A p \in Points :
     /\ Eval([t |-> "cmp", op |-> "!=", key |-> "host", val |-> "a"], p) = (p.host # "a")
     /\ Eval([t |-> "cmp", op |-> "=", key |-> "host", val |-> ""], p) = (p.host = "")

Emit == PrintT(<<"BEHAVIOUR", ToJson(Case)>>)
=============================================================================
