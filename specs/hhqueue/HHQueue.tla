------------------------------- MODULE HHQueue -------------------------------
(***************************************************************************)
(* The hinted-handoff queue of services/hh/queue.go, at block granularity. *)
(*                                                                         *)
(* Sizes are in 8-byte words: a block with a body of w words occupies w+1  *)
(* words on disk (length header), a segment ends with a 1-word footer that *)
(* holds the head position.  One action per critical section of the code:  *)
(* an append is  Take (limiter token) -> BodyStart (under queue lock: size *)
(* checks, segment roll, buffer or flush) -> BodyEnd (deferred flush       *)
(* decision, still under the lock) -> Ret (token released, call returns).  *)
(* The consumer side is Current / Advance (with head trimming); the node   *)
(* processor's SendWrite is modelled on top of these in the Send* actions. *)
(* Crash loses the volatile state (the write buffer) and keeps `segs`,     *)
(* which is the durable state because flush and advance fsync.             *)
(*                                                                         *)
(* Deviations of the implementation that are recorded, not repaired, are   *)
(* actions guarded by  d \in Dev ; blocks lost through them go to `lost`.  *)
(***************************************************************************)
EXTENDS Integers, Sequences, FiniteSets, TLC

CONSTANTS MaxSegW,    \* initial maximum segment size (words)
          MaxQW,      \* maximum queue size (words)
          Words,      \* body sizes an append may choose
          SegSizes,   \* sizes SetMaxSegmentSize may choose
          MaxBlocks,  \* bound on the number of blocks ever appended
          BufT,       \* limiter count from which an append takes the buffered path (10 in the code)
          MaxTok,     \* limiter capacity
          Apps,       \* appender processes
          Dev,        \* enabled deviations: subset of {"ackBeforeDurable"}
          MaxSegId,   \* bound (state constraint): highest segment id
          MaxSent     \* bound (state constraint): length of the processor's send history

VARIABLES segs,       \* durable: sequence of [id, blocks: Seq([id,w]), head, old]
          buf,        \* volatile: blocks in the tail segment's write buffer
          open,       \* volatile: queue is open
          maxSeg,     \* volatile: current max segment size
          tokens,     \* volatile: limiter tokens taken
          pc, cur,    \* per appender: program counter and the call's working record
          nextB,      \* next block id
          accepted,   \* history: ids whose Append returned nil, in return order
          consumed,   \* history: ids advanced past, in order
          dropped,    \* history: set of [id, why] discarded for a documented reason
          lost,       \* history: set of [id, why] lost through an enabled deviation
          sent        \* history: ids handed to the shard writer (processor level), in order

vars == <<segs, buf, open, maxSeg, tokens, pc, cur, nextB, accepted, consumed, dropped, lost, sent>>

-----------------------------------------------------------------------------
RECURSIVE SumWords(_)
SumWords(bs) == IF bs = <<>> THEN 0 ELSE (Head(bs).w + 1) + SumWords(Tail(bs))

SegWords(s) == 1 + SumWords(s.blocks)
RECURSIVE DiskWordsOf(_)
DiskWordsOf(ss) == IF ss = <<>> THEN 0 ELSE SegWords(Head(ss)) + DiskWordsOf(Tail(ss))

Exhausted(s) == s.head = Len(s.blocks)
LastSeg(ss) == ss[Len(ss)]
RECURSIVE MaxId(_)
MaxId(ss) == IF ss = <<>> THEN 0 ELSE LET m == MaxId(Tail(ss)) IN IF Head(ss).id > m THEN Head(ss).id ELSE m

Ids(bs) == [i \in 1..Len(bs) |-> bs[i].id]
RECURSIVE PendingOf(_)
PendingOf(ss) == IF ss = <<>> THEN <<>>
                 ELSE SubSeq(Head(ss).blocks, Head(ss).head + 1, Len(Head(ss).blocks)) \o PendingOf(Tail(ss))
PendingDisk == PendingOf(segs)
Pending == PendingDisk \o buf
Range(f) == {f[i] : i \in DOMAIN f}

NewSeg(ss) == [id |-> MaxId(ss) + 1, blocks |-> <<>>, head |-> 0, old |-> FALSE]

\* flush: the buffer goes to the end of the tail segment (write + fsync)
Flushed(ss, b) == IF b = <<>> THEN ss
                  ELSE [ss EXCEPT ![Len(ss)] = [@ EXCEPT !.blocks = @ \o b, !.old = FALSE]]

\* trimHead: drop the head segment when there is more than one
Trim(ss) == IF Len(ss) > 1 THEN Tail(ss) ELSE ss

-----------------------------------------------------------------------------
\* Append, the part under the queue lock.  Returns the new [segs, buf] and the call's result.
AppStartB(blk, bufd) ==
  LET w == blk.w IN
  IF ~open THEN [segs |-> segs, buf |-> buf, res |-> "notopen", bufd |-> FALSE, defer |-> FALSE]
  ELSE IF DiskWordsOf(segs) + w > MaxQW
       THEN [segs |-> segs, buf |-> buf, res |-> "full", bufd |-> FALSE, defer |-> FALSE]
  ELSE IF SegWords(LastSeg(segs)) + SumWords(buf) + w > maxSeg
       THEN \* segment.append flushes and reports ErrSegmentFull; the queue adds a segment and retries
            LET s1 == Flushed(segs, buf)
                s2 == Append(s1, NewSeg(s1)) IN
            IF 1 + w > maxSeg
            THEN [segs |-> s2, buf |-> <<>>, res |-> "segfull", bufd |-> bufd, defer |-> TRUE]
            ELSE IF bufd THEN [segs |-> s2, buf |-> <<blk>>, res |-> "ok", bufd |-> TRUE, defer |-> TRUE]
                 ELSE [segs |-> Flushed(s2, <<blk>>), buf |-> <<>>, res |-> "ok", bufd |-> FALSE, defer |-> TRUE]
       ELSE IF bufd THEN [segs |-> segs, buf |-> Append(buf, blk), res |-> "ok", bufd |-> TRUE, defer |-> TRUE]
            ELSE [segs |-> Flushed(segs, Append(buf, blk)), buf |-> <<>>, res |-> "ok", bufd |-> FALSE, defer |-> TRUE]

AppStart(w, tok) == AppStartB([id |-> nextB, w |-> w], tok >= BufT)

Take(a) == /\ pc[a] = "idle" /\ nextB <= MaxBlocks
           /\ IF tokens < MaxTok
              THEN /\ tokens' = tokens + 1 /\ pc' = [pc EXCEPT ![a] = "took"]
              ELSE /\ UNCHANGED tokens /\ pc' = pc       \* ErrQueueBlocked: nothing happens
           /\ UNCHANGED <<segs, buf, open, maxSeg, cur, nextB, accepted, consumed, dropped, lost, sent>>

NoCall == [res |-> "none", bufd |-> FALSE, defer |-> FALSE, id |-> 0]
NoBodyRunning == \A b \in Apps : pc[b] # "body"

BodyStart(a, w) ==
  /\ pc[a] = "took" /\ NoBodyRunning
  /\ LET r == AppStart(w, tokens) IN
       /\ segs' = r.segs /\ buf' = r.buf
       /\ cur' = [cur EXCEPT ![a] = [res |-> r.res, bufd |-> r.bufd, defer |-> r.defer, id |-> nextB]]
       /\ nextB' = IF r.res = "ok" THEN nextB + 1 ELSE nextB
       /\ pc' = [pc EXCEPT ![a] = "body"]
  /\ UNCHANGED <<open, maxSeg, tokens, accepted, consumed, dropped, lost, sent>>

\* deferred: "if buffered && len(limiter) <= 1 { tail.flush() }", still under the queue lock
BodyEnd(a) ==
  /\ pc[a] = "body"
  /\ IF cur[a].defer /\ cur[a].bufd /\ tokens <= 1
     THEN /\ segs' = Flushed(segs, buf) /\ buf' = <<>>
     ELSE UNCHANGED <<segs, buf>>
  /\ pc' = [pc EXCEPT ![a] = "ret"]
  /\ UNCHANGED <<open, maxSeg, tokens, cur, nextB, accepted, consumed, dropped, lost, sent>>

Ret(a) ==
  /\ pc[a] = "ret"
  /\ tokens' = tokens - 1
  /\ accepted' = IF cur[a].res = "ok" THEN accepted \cup {cur[a].id} ELSE accepted
  /\ pc' = [pc EXCEPT ![a] = "idle"]
  /\ cur' = [cur EXCEPT ![a] = NoCall]
  /\ UNCHANGED <<segs, buf, open, maxSeg, nextB, consumed, dropped, lost, sent>>

\* Tokens held by callers that are queued on the lock (or have not released yet) are just Take/Ret of
\* other processes; nothing else touches `tokens`.

-----------------------------------------------------------------------------
\* Current: the block at the head of the head segment, or EOF.  Observation only.
CurrentAns == IF ~open THEN "notopen"
              ELSE IF Exhausted(segs[1]) THEN "eof" ELSE segs[1].blocks[segs[1].head + 1].id

\* Advance: footer rewrite + fsync, then trim when the head segment is exhausted.
AdvancedSegs ==
  IF Exhausted(segs[1]) THEN Trim(segs)
  ELSE LET s1 == [segs EXCEPT ![1] = [@ EXCEPT !.head = @ + 1, !.old = FALSE]] IN
       IF Exhausted(s1[1]) THEN Trim(s1) ELSE s1

Advance ==
  /\ open /\ NoBodyRunning
  /\ segs' = AdvancedSegs
  /\ consumed' = IF Exhausted(segs[1]) THEN consumed ELSE consumed \cup {segs[1].blocks[segs[1].head + 1].id}
  /\ UNCHANGED <<buf, open, maxSeg, tokens, pc, cur, nextB, accepted, dropped, lost, sent>>

\* Empty(): what the property demands of the answer
EmptyAns == Pending = <<>> \/ ~open

-----------------------------------------------------------------------------
\* Close: segments are closed; the write buffer is flushed first (repaired behaviour, see DESIGN F3).
Close ==
  /\ open /\ NoBodyRunning
  /\ segs' = Flushed(segs, buf) /\ buf' = <<>> /\ open' = FALSE
  /\ UNCHANGED <<maxSeg, tokens, pc, cur, nextB, accepted, consumed, dropped, lost, sent>>

\* Open: load the segments; create one if there is none; trim once if the head is exhausted.
Opened(ss) == LET s1 == IF ss = <<>> THEN <<NewSeg(ss)>> ELSE ss IN
              IF Exhausted(s1[1]) THEN Trim(s1) ELSE s1
Open ==
  /\ ~open /\ \A a \in Apps : pc[a] = "idle"
  /\ segs' = Opened(segs) /\ open' = TRUE /\ maxSeg' = MaxSegW
  /\ UNCHANGED <<buf, tokens, pc, cur, nextB, accepted, consumed, dropped, lost, sent>>

\* Crash: the process dies between two durable steps; the buffer is gone.  Buffered appends that had
\* already returned are lost -- the implementation acknowledges them before they are durable.
Crash ==
  /\ open
  /\ "ackBeforeDurable" \in Dev \/ \A i \in 1..Len(buf) : buf[i].id \notin accepted
  /\ lost' = lost \cup {[id |-> buf[i].id, why |-> "ackBeforeDurable"] : i \in {j \in 1..Len(buf) : buf[j].id \in accepted}}
  /\ buf' = <<>> /\ open' = FALSE /\ tokens' = 0
  /\ pc' = [a \in Apps |-> "idle"] /\ cur' = [a \in Apps |-> NoCall]
  /\ UNCHANGED <<segs, maxSeg, nextB, accepted, consumed, dropped, sent>>

SetMaxSeg(m) ==
  /\ open /\ NoBodyRunning /\ m \in SegSizes /\ m # maxSeg
  /\ maxSeg' = m
  /\ IF SegWords(LastSeg(segs)) >= m      \* the old tail's buffer is flushed before the new tail is installed
     THEN /\ segs' = Append(Flushed(segs, buf), NewSeg(segs)) /\ buf' = <<>>
     ELSE UNCHANGED <<segs, buf>>
  /\ UNCHANGED <<open, tokens, pc, cur, nextB, accepted, consumed, dropped, lost, sent>>

\* The environment lets time pass: every existing segment file becomes older than the age limit.
AgeAll ==
  /\ \E i \in 1..Len(segs) : ~segs[i].old
  /\ segs' = [i \in 1..Len(segs) |-> [segs[i] EXCEPT !.old = TRUE]]
  /\ UNCHANGED <<buf, open, maxSeg, tokens, pc, cur, nextB, accepted, consumed, dropped, lost, sent>>

\* PurgeOlderThan: while the head segment is old, add a segment if it is the only one, then trim it.
RECURSIVE Purged(_)
Purged(ss) == IF ~ss[1].old THEN ss
              ELSE LET s1 == IF Len(ss) = 1 THEN Append(ss, NewSeg(ss)) ELSE ss IN Purged(Tail(s1))
RECURSIVE PurgedBlocks(_)
PurgedBlocks(ss) == IF ~ss[1].old THEN <<>>
                    ELSE LET s1 == IF Len(ss) = 1 THEN Append(ss, NewSeg(ss)) ELSE ss IN
                         SubSeq(ss[1].blocks, ss[1].head + 1, Len(ss[1].blocks)) \o PurgedBlocks(Tail(s1))
Purge ==
  /\ open /\ NoBodyRunning /\ buf = <<>>
  /\ segs' = Purged(segs)
  /\ dropped' = dropped \cup {[id |-> b.id, why |-> "age"] : b \in Range(PurgedBlocks(segs))}
  /\ UNCHANGED <<buf, open, maxSeg, tokens, pc, cur, nextB, accepted, consumed, lost, sent>>

-----------------------------------------------------------------------------
\* Node processor on top of the queue (SendWrite): one call = Current, hand the block to the shard
\* writer, Advance unless the failure is retryable.
SendOk ==
  /\ open /\ NoBodyRunning /\ ~Exhausted(segs[1])
  /\ sent' = Append(sent, segs[1].blocks[segs[1].head + 1].id)
  /\ segs' = AdvancedSegs
  /\ consumed' = consumed \cup {segs[1].blocks[segs[1].head + 1].id}
  /\ UNCHANGED <<buf, open, maxSeg, tokens, pc, cur, nextB, accepted, dropped, lost>>

SendRetryable ==
  /\ open /\ NoBodyRunning /\ ~Exhausted(segs[1])
  /\ sent' = Append(sent, segs[1].blocks[segs[1].head + 1].id)
  /\ UNCHANGED <<segs, buf, open, maxSeg, tokens, pc, cur, nextB, accepted, consumed, dropped, lost>>

SendRejected ==     \* the target permanently rejects the write: documented discard
  /\ open /\ NoBodyRunning /\ ~Exhausted(segs[1])
  /\ sent' = Append(sent, segs[1].blocks[segs[1].head + 1].id)
  /\ segs' = AdvancedSegs
  /\ dropped' = dropped \cup {[id |-> segs[1].blocks[segs[1].head + 1].id, why |-> "rejected"]}
  /\ consumed' = consumed \cup {segs[1].blocks[segs[1].head + 1].id}
  /\ UNCHANGED <<buf, open, maxSeg, tokens, pc, cur, nextB, accepted, lost>>

SendEof ==          \* nothing at the head: SendWrite advances (which trims an exhausted head segment)
  /\ open /\ NoBodyRunning /\ Exhausted(segs[1])
  /\ segs' = Trim(segs)
  /\ UNCHANGED <<buf, open, maxSeg, tokens, pc, cur, nextB, accepted, consumed, dropped, lost, sent>>

-----------------------------------------------------------------------------
Init ==
  /\ segs = <<[id |-> 1, blocks |-> <<>>, head |-> 0, old |-> FALSE]>>
  /\ buf = <<>> /\ open = TRUE /\ maxSeg = MaxSegW /\ tokens = 0
  /\ pc = [a \in Apps |-> "idle"] /\ cur = [a \in Apps |-> NoCall]
  /\ nextB = 1 /\ accepted = {} /\ consumed = {} /\ dropped = {} /\ lost = {} /\ sent = <<>>

Producer == \E a \in Apps : Take(a) \/ BodyEnd(a) \/ Ret(a) \/ \E w \in Words : BodyStart(a, w)
Admin == Close \/ Open \/ Crash \/ Purge \/ AgeAll \/ \E m \in SegSizes : SetMaxSeg(m)
Processor == SendOk \/ SendRetryable \/ SendRejected \/ SendEof

NextQ == Producer \/ Admin \/ Advance           \* the queue on its own
NextP == Producer \/ Admin \/ Processor         \* the queue under the node processor
Next == NextQ \/ NextP

Spec == Init /\ [][Next]_vars
SpecQ == Init /\ [][NextQ]_vars
SpecP == Init /\ [][NextP]_vars

-----------------------------------------------------------------------------
\* Properties (C04)

IdsOf(S) == {x.id : x \in S}
PendingIds == Range(Ids(Pending))

TypeOK ==
  /\ open \in BOOLEAN /\ tokens \in 0..MaxTok
  /\ (open => Len(segs) >= 1)
  /\ \A i \in 1..Len(segs) : segs[i].head \in 0..Len(segs[i].blocks)

\* every accepted block is delivered/consumed, discarded for a documented reason, or still in the queue
C04_NoLoss ==
  \A b \in accepted :
     \/ b \in consumed
     \/ b \in IdsOf(dropped)
     \/ b \in PendingIds
     \/ b \in IdsOf(lost)        \* only through an enabled deviation

C04_NoLossStrict == C04_NoLoss /\ lost = {}

\* order: what is pending is in acceptance (= id) order and behind everything consumed
Increasing(s) == \A i, j \in 1..Len(s) : i < j => s[i] < s[j]
C04_Order ==
  /\ Increasing(Ids(Pending))
  /\ \A c \in consumed, p \in PendingIds : c < p

\* blocks are handed to the shard writer in order; a block is re-sent only until it is consumed
C04_SentInOrder == \A i, j \in 1..Len(sent) : i < j => sent[i] <= sent[j]

\* only the head segment may be exhausted while others exist, and then only until the next Advance/Open
C04_SegIdsIncrease == \A i, j \in 1..Len(segs) : i < j => segs[i].id < segs[j].id

\* buffered blocks are only ever in the tail's buffer while the queue is open
C04_BufOnlyWhenOpen == ~open => buf = <<>>

\* nothing is discarded except for a documented reason
C04_DroppedReasons == \A d \in dropped : d.why \in {"age", "rejected"}

\* State constraint for the exhaustive configurations (every growing value is bounded).
Bounded == MaxId(segs) <= MaxSegId /\ Len(sent) <= MaxSent
=============================================================================
