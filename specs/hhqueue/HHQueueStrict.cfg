\* Same design without the deviation: crash cannot fall between a buffered acknowledgement and its flush.
SPECIFICATION SpecQ
CONSTANTS
  MaxSegW = 5
  MaxQW = 14
  Words = {1, 2}
  SegSizes = {5}
  MaxBlocks = 3
  BufT = 2
  MaxTok = 2
  Apps = {a1, a2}
  Dev = {}
  MaxSegId = 3
  MaxSent = 0
CONSTRAINT Bounded
INVARIANTS TypeOK C04_NoLossStrict C04_Order
CHECK_DEADLOCK FALSE
