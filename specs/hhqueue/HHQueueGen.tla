----------------------------- MODULE HHQueueGen -----------------------------
(* Behaviour generator for replay on the real hh.queue / NodeProcessor.           *)
(* One step = one call of the real API by a sequential driver.  An append is the  *)
(* composition Take . BodyStart . BodyEnd . Ret of HHQueue with the limiter count *)
(* chosen by `mode` (the driver holds phantom tokens = other callers waiting for  *)
(* the lock, and releases them at the hook inside Append for "bufflush").         *)
EXTENDS HHQueue, Json

CONSTANT GenLen
VARIABLE hist

gvars == <<vars, hist>>

SegProj(ss) == [i \in 1..Len(ss) |-> [id |-> ss[i].id, ids |-> Ids(ss[i].blocks), head |-> ss[i].head]]
\* projection of the state after the step + what the property demands of the observations
Proj == [segs |-> SegProj(segs'), buf |-> Ids(buf'), open |-> open',
         pending |-> Ids(PendingOf(segs') \o buf'),
         empty |-> (PendingOf(segs') \o buf' = <<>>) \/ ~open',
         lost |-> {x.id : x \in lost'}, dropped |-> {x.id : x \in dropped'}]
Log(rec) == hist' = Append(hist, rec @@ [st |-> Proj])

Quiet == UNCHANGED <<tokens, pc, cur, sent>>

GAppend(w, mode) ==
  /\ open /\ nextB <= MaxBlocks
  /\ LET tok == IF mode = "direct" THEN 1 ELSE BufT
         r == AppStart(w, tok)
         endflush == r.defer /\ r.bufd /\ mode = "bufflush" IN
     /\ segs' = IF endflush THEN Flushed(r.segs, r.buf) ELSE r.segs
     /\ buf' = IF endflush THEN <<>> ELSE r.buf
     /\ nextB' = IF r.res = "ok" THEN nextB + 1 ELSE nextB
     /\ accepted' = IF r.res = "ok" THEN accepted \cup {nextB} ELSE accepted
     /\ Quiet /\ UNCHANGED <<open, maxSeg, consumed, dropped, lost>>
     /\ Log([a |-> "append", w |-> w, mode |-> mode, id |-> nextB, res |-> r.res])

GCurrent ==
  /\ open
  /\ Quiet /\ UNCHANGED <<segs, buf, open, maxSeg, nextB, accepted, consumed, dropped, lost>>
  /\ Log([a |-> "current", ans |-> CurrentAns])

GAdvance == /\ Advance /\ Log([a |-> "advance"])
GClose == /\ Close /\ Log([a |-> "close"])
GOpen == /\ Open /\ Log([a |-> "open"])
GCrash == /\ Crash /\ Log([a |-> "crash"])
GSetMax(m) == /\ SetMaxSeg(m) /\ Log([a |-> "setmax", m |-> m])
GAge == /\ open /\ AgeAll /\ Log([a |-> "age"])
GPurge == /\ Purge /\ Log([a |-> "purge"])
GSendOk == /\ SendOk /\ Log([a |-> "sendok", id |-> sent'[Len(sent')]])
GSendRetry == /\ SendRetryable /\ Log([a |-> "sendretry", id |-> sent'[Len(sent')]])
GSendRej == /\ SendRejected /\ Log([a |-> "sendrej", id |-> sent'[Len(sent')]])
GSendEof == /\ SendEof /\ Log([a |-> "sendeof"])

GInit == Init /\ hist = <<>>

\* queue-level behaviours
GNextQ ==
  /\ Len(hist) < GenLen
  /\ \/ \E w \in Words, mode \in {"direct", "buffered", "bufflush"} : GAppend(w, mode)
     \/ GCurrent \/ GAdvance \/ GClose \/ GOpen \/ GCrash \/ GAge \/ GPurge
     \/ \E m \in SegSizes : GSetMax(m)

\* processor-level behaviours (appends go through the same queue; the consumer is SendWrite)
GNextP ==
  /\ Len(hist) < GenLen
  /\ \/ \E w \in Words : GAppend(w, "direct")
     \/ GSendOk \/ GSendRetry \/ GSendRej \/ GSendEof \/ GClose \/ GOpen \/ GCrash
     \/ GAge \/ GPurge      \* the run loop's purge by age between two SendWrite calls (a failed send followed by a purge)
     \/ \E m \in SegSizes : GSetMax(m)

\* the sender against the purge by age, enumerated exhaustively (every interleaving of a failed or successful
\* SendWrite with ageing, purge and new appends up to GenLen steps)
GNextPA ==
  /\ Len(hist) < GenLen
  /\ \/ \E w \in Words : GAppend(w, "direct")
     \/ GSendOk \/ GSendRetry \/ GSendEof \/ GAge \/ GPurge

GSpecPA == GInit /\ [][GNextPA]_gvars
GSpecQ == GInit /\ [][GNextQ]_gvars
GSpecP == GInit /\ [][GNextP]_gvars

Emit == (Len(hist) = GenLen) => PrintT(<<"BEHAVIOUR", ToJson(hist)>>)
=============================================================================
