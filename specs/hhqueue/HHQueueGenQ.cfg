SPECIFICATION GSpecQ
CONSTANTS
  MaxSegW = 5
  MaxQW = 14
  Words = {1, 2, 5}
  SegSizes = {3, 5}
  MaxBlocks = 8
  BufT = 2
  MaxTok = 2
  Apps = {a1}
  Dev = {"ackBeforeDurable"}
  MaxSegId = 99
  MaxSent = 99
  GenLen = 14
INVARIANT Emit
CHECK_DEADLOCK FALSE
