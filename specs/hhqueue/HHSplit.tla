------------------------------- MODULE HHSplit -------------------------------
(* NodeProcessor.WriteShard: a batch whose encoding exceeds the segment size is bisected until   *)
(* every block fits.  Sizes are abstract units (the harness maps one unit to 1 MiB of field      *)
(* data; the limit is the code's 10 MiB defaultSegmentSize, Limit units here).                   *)
EXTENDS Integers, Sequences, TLC, Json

CONSTANTS MaxPoints, Sizes, Limit, Overhead   \* Overhead: fixed bytes of a block, in units (0: negligible)

VARIABLES pts,      \* the batch: sequence of point sizes
          i, j,     \* the code's window [i, j)
          blocks,   \* appended blocks: sequence of [lo, hi) index pairs (0-based, as in the code)
          res,      \* "run" | "ok" | "segfull"
          hist

vars == <<pts, i, j, blocks, res, hist>>

RECURSIVE Sum(_, _, _)
Sum(s, lo, hi) == IF lo >= hi THEN 0 ELSE s[lo + 1] + Sum(s, lo + 1, hi)
Enc(lo, hi) == Overhead + Sum(pts, lo, hi)

Batches == UNION {[1..n -> Sizes] : n \in 1..MaxPoints}

Init == /\ pts \in Batches /\ i = 0 /\ j = Len(pts) /\ blocks = <<>> /\ res = "run" /\ hist = <<>>

\* inner loop: halve the window while the encoding is too large
Shrink == /\ res = "run" /\ i < j /\ Enc(i, j) > Limit
          /\ IF j = i + 1 THEN res' = "segfull" /\ UNCHANGED j
             ELSE j' = (i + j + 1) \div 2 /\ UNCHANGED res
          /\ UNCHANGED <<pts, i, blocks, hist>>

Emit == /\ res = "run" /\ i < j /\ Enc(i, j) <= Limit
        /\ blocks' = Append(blocks, <<i, j>>)
        /\ IF j = Len(pts) THEN res' = "ok" /\ UNCHANGED <<i, j>>
           ELSE i' = j /\ j' = Len(pts) /\ UNCHANGED res
        /\ UNCHANGED <<pts, hist>>

Done == res # "run" /\ hist = <<>> /\ hist' = <<[pts |-> pts, blocks |-> blocks, res |-> res]>> /\ UNCHANGED <<pts, i, j, blocks, res>>

Next == Shrink \/ Emit \/ Done
Spec == Init /\ [][Next]_vars

\* C04_SplitKeepsPoints: blocks are consecutive, non-empty, in order, each fits; on success they cover the batch;
\* an error is returned only when a single point does not fit.
Consecutive == \A k \in 1..Len(blocks) : /\ blocks[k][1] < blocks[k][2]
                                         /\ Enc(blocks[k][1], blocks[k][2]) <= Limit
                                         /\ (k = 1 => blocks[k][1] = 0)
                                         /\ (k > 1 => blocks[k][1] = blocks[k - 1][2])
C04_SplitKeepsPoints ==
  /\ Consecutive
  /\ (res = "ok" => Len(blocks) >= 1 /\ blocks[Len(blocks)][2] = Len(pts))
  /\ (res = "segfull" => \E k \in 1..Len(pts) : Overhead + pts[k] > Limit)
  /\ ((\A k \in 1..Len(pts) : Overhead + pts[k] <= Limit) => res # "segfull")

EmitBeh == (hist # <<>>) => PrintT(<<"BEHAVIOUR", ToJson(hist)>>)
=============================================================================
