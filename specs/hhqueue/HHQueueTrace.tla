---------------------------- MODULE HHQueueTrace ----------------------------
(* Trace validation: executions of the REAL hh.queue under concurrent appenders (buffered path      *)
(* included), a consumer and a racing Close, recorded at the lock-protected hook sites and at the   *)
(* call/return points of the driver, are checked to be behaviours of HHQueue.  Events inside the    *)
(* queue lock (append.locked, flush.synced, advance.synced, trim.removed, close.locked) are the     *)
(* linearization points; calls that take no exclusive lock (Current, Empty) and early error         *)
(* returns are checked against the window of states between their call and return events.          *)
(* The limiter count is lock-free in the code: the `buffered` decision is taken from the log.       *)
EXTENDS HHQueue, Json

VARIABLES l,        \* next trace line
          calls,    \* open calls: id -> observation window
          bodyRes   \* block id -> result decided under the lock ("ok" | "segfull")

Trace == ndJsonDeserialize("trace.ndjson")
tvars == <<vars, l, calls, bodyRes>>

Ev == Trace[l]
Is(e) == l <= Len(Trace) /\ Trace[l].e = e

CurNum == IF ~open THEN -1 ELSE IF Exhausted(segs[1]) THEN 0 ELSE segs[1].blocks[segs[1].head + 1].id
EmptyNow == (PendingOf(segs) \o buf = <<>>) \/ ~open
Empt == [x \in {} |-> 0]
Without(f, c) == [x \in DOMAIN f \ {c} |-> f[x]]

NewCall(k, w) == [k |-> k, w |-> w, closed |-> ~open, full |-> (open /\ DiskWordsOf(segs) + w > MaxQW),
                  curs |-> {CurNum}, empts |-> {EmptyNow}]
\* extend every open window with the state after this step (reads primed variables: use it last)
Upd(cs) == [c \in DOMAIN cs |-> [cs[c] EXCEPT !.closed = @ \/ ~open',
                                               !.full = @ \/ (open' /\ DiskWordsOf(segs') + cs[c].w > MaxQW),
                                               !.curs = @ \cup {CurNum'},
                                               !.empts = @ \cup {EmptyNow'}]]

Hist == UNCHANGED <<maxSeg, tokens, pc, cur, nextB, dropped, lost, sent>>
Same == UNCHANGED <<segs, buf, open, accepted, consumed>>

RECURSIVE WordsUpTo(_, _)
WordsUpTo(bs, n) == IF n = 0 THEN 0 ELSE (bs[n].w + 1) + WordsUpTo(bs, n - 1)
SegById(ss, id) == CHOOSE i \in 1..Len(ss) : ss[i].id = id
HasSeg(ss, id) == \E i \in 1..Len(ss) : ss[i].id = id

Reset ==
  /\ Is("reset")
  /\ segs' = <<[id |-> 1, blocks |-> <<>>, head |-> 0, old |-> FALSE]>>
  /\ buf' = <<>> /\ open' = TRUE /\ accepted' = {} /\ consumed' = {}
  /\ calls' = Empt /\ bodyRes' = Empt
  /\ maxSeg' = Ev.maxSegW
  /\ UNCHANGED <<tokens, pc, cur, nextB, dropped, lost, sent>>

AppendCall ==
  /\ Is("append.call") /\ Same /\ Hist /\ UNCHANGED bodyRes
  /\ calls' = calls @@ (Ev.c :> NewCall("append", Ev.w))

AppendLocked ==
  /\ Is("append.locked")
  /\ LET r == AppStartB([id |-> Ev.id, w |-> Ev.w], Ev.bufd) IN
       /\ r.res \in {"ok", "segfull"}          \* the hook sits after the not-open and queue-full returns
       /\ segs' = r.segs /\ buf' = r.buf
       /\ bodyRes' = bodyRes @@ (Ev.id :> r.res)
  /\ UNCHANGED <<open, accepted, consumed>> /\ Hist
  /\ calls' = Upd(calls)

FlushSynced ==
  /\ Is("flush.synced")
  /\ IF buf # <<>> /\ LastSeg(segs).id = Ev.seg
     THEN segs' = Flushed(segs, buf) /\ buf' = <<>>
     ELSE UNCHANGED <<segs, buf>>
  /\ HasSeg(segs', Ev.seg) /\ SegWords(segs'[SegById(segs', Ev.seg)]) * 8 = Ev.size
  /\ UNCHANGED <<open, accepted, consumed, bodyRes>> /\ Hist
  /\ calls' = Upd(calls)

AdvanceSynced ==
  /\ Is("advance.synced")
  /\ open /\ segs[1].id = Ev.seg /\ ~Exhausted(segs[1])
  /\ WordsUpTo(segs[1].blocks, segs[1].head) * 8 = Ev.pos
  /\ WordsUpTo(segs[1].blocks, segs[1].head + 1) * 8 = Ev.newpos
  /\ segs' = [segs EXCEPT ![1] = [@ EXCEPT !.head = @ + 1, !.old = FALSE]]
  /\ consumed' = consumed \cup {segs[1].blocks[segs[1].head + 1].id}
  /\ UNCHANGED <<buf, open, accepted, bodyRes>> /\ Hist
  /\ calls' = Upd(calls)

TrimRemoved ==
  /\ Is("trim.removed")
  /\ Len(segs) > 1 /\ segs[1].id = Ev.seg /\ Exhausted(segs[1])
  /\ segs' = Tail(segs)
  /\ UNCHANGED <<buf, open, accepted, consumed, bodyRes>> /\ Hist
  /\ calls' = Upd(calls)

CloseLocked ==
  /\ Is("close.locked") /\ open
  /\ open' = FALSE
  /\ UNCHANGED <<segs, buf, accepted, consumed, bodyRes>> /\ Hist
  /\ calls' = Upd(calls)

CloseRet ==        \* everything buffered has been written out by the time Close returns
  /\ Is("close.ret") /\ ~open /\ buf = <<>>
  /\ Same /\ Hist /\ UNCHANGED <<calls, bodyRes>>

AppendRet ==
  /\ Is("append.ret") /\ Ev.c \in DOMAIN calls
  /\ CASE Ev.res = "ok"      -> Ev.id \in DOMAIN bodyRes /\ bodyRes[Ev.id] = "ok"
       [] Ev.res = "segfull" -> Ev.id \in DOMAIN bodyRes /\ bodyRes[Ev.id] = "segfull"
       [] Ev.res = "notopen" -> Ev.id \notin DOMAIN bodyRes /\ calls[Ev.c].closed
       [] Ev.res = "full"    -> Ev.id \notin DOMAIN bodyRes /\ calls[Ev.c].full
       [] Ev.res = "blocked" -> Ev.id \notin DOMAIN bodyRes
       [] OTHER -> FALSE
  /\ accepted' = IF Ev.res = "ok" THEN accepted \cup {Ev.id} ELSE accepted
  /\ UNCHANGED <<segs, buf, open, consumed, bodyRes>> /\ Hist
  /\ calls' = Without(calls, Ev.c)

ObsCall ==
  /\ (Is("current.call") \/ Is("empty.call")) /\ Same /\ Hist /\ UNCHANGED bodyRes
  /\ calls' = calls @@ (Ev.c :> NewCall("obs", 0))

CurrentRet ==
  /\ Is("current.ret") /\ Ev.c \in DOMAIN calls
  /\ Ev.ans \in calls[Ev.c].curs
  /\ Same /\ Hist /\ UNCHANGED bodyRes
  /\ calls' = Without(calls, Ev.c)

EmptyRet ==      \* C04: Empty() answers "nothing pending" for some state between its call and its return
  /\ Is("empty.ret") /\ Ev.c \in DOMAIN calls
  /\ Ev.ans \in calls[Ev.c].empts
  /\ Same /\ Hist /\ UNCHANGED bodyRes
  /\ calls' = Without(calls, Ev.c)

Reopen ==        \* sequential point: the driver reopened the queue and read the files back
  /\ Is("open") /\ ~open
  /\ open' = TRUE
  /\ Len(Ev.segs) = Len(segs)
  /\ \A i \in 1..Len(segs) : /\ Ev.segs[i].id = segs[i].id /\ Ev.segs[i].head = segs[i].head
                             /\ Ev.segs[i].ids = Ids(segs[i].blocks)
  /\ UNCHANGED <<segs, buf, accepted, consumed, bodyRes>> /\ Hist
  /\ calls' = Upd(calls)

Drain ==         \* sequential point: what a restarted processor reads back, in order
  /\ Is("drain") /\ open
  /\ Ev.ids = Ids(PendingOf(segs))
  /\ Same /\ Hist /\ UNCHANGED <<calls, bodyRes>>

TraceInit == Init /\ l = 1 /\ calls = Empt /\ bodyRes = Empt /\ TLCSet(1, 1)

TraceNext ==
  /\ \/ Reset \/ AppendCall \/ AppendLocked \/ FlushSynced \/ AdvanceSynced \/ TrimRemoved
     \/ CloseLocked \/ CloseRet \/ AppendRet \/ ObsCall \/ CurrentRet \/ EmptyRet \/ Reopen \/ Drain
  /\ l' = l + 1
  /\ TLCSet(1, IF l' > TLCGet(1) THEN l' ELSE TLCGet(1))

TraceSpec == TraceInit /\ [][TraceNext]_tvars

TraceAccepted == /\ PrintT(<<"HWM", TLCGet(1) - 1, Len(Trace)>>)
                 /\ TLCGet(1) - 1 = Len(Trace)
=============================================================================
