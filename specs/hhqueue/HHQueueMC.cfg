\* Exhaustive check of the queue on its own: 2 concurrent appenders (buffer threshold 2 so that the
\* buffered path and the racing end-of-call flush are reachable), consumer, close/open, crash,
\* segment-size change, ageing + purge.  The code's recorded deviation is enabled.
SPECIFICATION SpecQ
CONSTANTS
  MaxSegW = 5
  MaxQW = 14
  Words = {1, 2}
  SegSizes = {3, 5}
  MaxBlocks = 3
  BufT = 2
  MaxTok = 2
  Apps = {a1, a2}
  Dev = {"ackBeforeDurable"}
  MaxSegId = 3
  MaxSent = 0
CONSTRAINT Bounded
INVARIANTS TypeOK C04_NoLoss C04_Order C04_SegIdsIncrease C04_BufOnlyWhenOpen C04_DroppedReasons
CHECK_DEADLOCK FALSE
