\* The queue under the node processor (send ok / retryable / rejected / eof), one appender.
SPECIFICATION SpecP
CONSTANTS
  MaxSegW = 5
  MaxQW = 14
  Words = {1, 2}
  SegSizes = {3, 5}
  MaxBlocks = 3
  BufT = 2
  MaxTok = 2
  Apps = {a1}
  Dev = {"ackBeforeDurable"}
  MaxSegId = 3
  MaxSent = 5
CONSTRAINT Bounded
INVARIANTS TypeOK C04_NoLoss C04_Order C04_SentInOrder C04_SegIdsIncrease C04_DroppedReasons
CHECK_DEADLOCK FALSE
