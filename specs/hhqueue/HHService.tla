------------------------------ MODULE HHService ------------------------------
(***************************************************************************)
(* services/hh/service.go: the map (node, shard) -> NodeProcessor, writers  *)
(* that look a processor up (creating it on demand) and append to it, the   *)
(* periodic purge of processors that are empty or belong to an inactive     *)
(* node with old data, RemoveNode, and the sender.  One queue per           *)
(* processor, abstracted to the sequence of pending block ids (the queue    *)
(* itself is HHQueue's subject).                                            *)
(*                                                                          *)
(* The point of the module is the lock discipline between a writer and the  *)
(* purge: WriteUnderLock = TRUE is the repaired code (the append happens    *)
(* while the service read lock is still held); FALSE is the behaviour that  *)
(* was found in the repository (lookup under the lock, append after it),    *)
(* kept as a negative control.                                              *)
(***************************************************************************)
EXTENDS Integers, Sequences, FiniteSets, TLC

CONSTANTS Procs,          \* (node, shard) pairs encoded as node * 10 + shard
          Nodes, Writers, MaxBlocks, WriteUnderLock

NodeOf(p) == p \div 10

VARIABLES exists,    \* processor present in the map (and its directory on disk)
          closed,    \* processor object closed (writers holding a stale pointer get an error)
          gen,       \* generation of the processor object for a key (a purged one is re-created on demand)
          pending,   \* blocks on disk per key
          active,    \* node -> still a data node of the cluster
          old,       \* key -> its data is older than MaxAge
          wpc, wkey, wgen, wblk,   \* writers: pc, target key, generation of the pointer they hold, block
          ppc, pkey, pemptySeen,   \* purge pass: pc, key being examined, result of its emptiness check
          nextB, acked, delivered, dropped
vars == <<exists, closed, gen, pending, active, old, wpc, wkey, wgen, wblk, ppc, pkey, pemptySeen, nextB, acked, delivered, dropped>>

Range(s) == {s[i] : i \in DOMAIN s}
NoKey == 0

Init == /\ exists = [p \in Procs |-> FALSE] /\ closed = [p \in Procs |-> FALSE] /\ gen = [p \in Procs |-> 0]
        /\ pending = [p \in Procs |-> <<>>] /\ active = [n \in Nodes |-> TRUE] /\ old = [p \in Procs |-> FALSE]
        /\ wpc = [w \in Writers |-> "idle"] /\ wkey = [w \in Writers |-> NoKey] /\ wgen = [w \in Writers |-> 0]
        /\ wblk = [w \in Writers |-> 0]
        /\ ppc = "idle" /\ pkey = NoKey /\ pemptySeen = FALSE
        /\ nextB = 1 /\ acked = {} /\ delivered = {} /\ dropped = {}

PurgeHoldsLock == ppc # "idle"
\* the purge pass holds the service write lock from its first step to its last: lookups wait
\* (and, with WriteUnderLock, so do the appends of writers that already looked up -- they hold the read lock,
\* so the purge cannot even start while such a writer is between lookup and append)
WriterInLockedSection == \E w \in Writers : wpc[w] = "found" /\ WriteUnderLock

\* writer: lookup (create on demand), append, return
Lookup(w, p) == /\ wpc[w] = "idle" /\ nextB <= MaxBlocks /\ ~PurgeHoldsLock
                /\ IF exists[p] THEN UNCHANGED <<exists, closed, gen>>
                   ELSE /\ exists' = [exists EXCEPT ![p] = TRUE] /\ closed' = [closed EXCEPT ![p] = FALSE]
                        /\ gen' = [gen EXCEPT ![p] = @ + 1]
                /\ wpc' = [wpc EXCEPT ![w] = "found"] /\ wkey' = [wkey EXCEPT ![w] = p]
                /\ wgen' = [wgen EXCEPT ![w] = gen'[p]] /\ wblk' = [wblk EXCEPT ![w] = nextB] /\ nextB' = nextB + 1
                /\ UNCHANGED <<pending, active, old, ppc, pkey, pemptySeen, acked, delivered, dropped>>

\* processor.WriteShard: fails on a closed processor object, else the block is on disk and acknowledged
WAppend(w) == /\ wpc[w] = "found"
              /\ LET p == wkey[w] IN
                 IF exists[p] /\ gen[p] = wgen[w] /\ ~closed[p]
                 THEN /\ pending' = [pending EXCEPT ![p] = Append(@, wblk[w])] /\ acked' = acked \cup {wblk[w]}
                      /\ old' = [old EXCEPT ![p] = FALSE]
                 ELSE UNCHANGED <<pending, acked, old>>          \* "node processor is closed": not acknowledged
              /\ wpc' = [wpc EXCEPT ![w] = "idle"]
              /\ UNCHANGED <<exists, closed, gen, active, wkey, wgen, wblk, ppc, pkey, pemptySeen, nextB, delivered, dropped>>

\* purgeInactiveProcessors, one processor per pass here: check (under the write lock), close, purge
PurgeCheck(p) == /\ ppc = "idle" /\ exists[p] /\ ~WriterInLockedSection
                 /\ pending[p] = <<>> \/ (~active[NodeOf(p)] /\ old[p])
                 /\ ppc' = "checked" /\ pkey' = p /\ pemptySeen' = (pending[p] = <<>>)
                 /\ UNCHANGED <<exists, closed, gen, pending, active, old, wpc, wkey, wgen, wblk, nextB, acked, delivered, dropped>>
PurgeClose == /\ ppc = "checked"
              /\ closed' = [closed EXCEPT ![pkey] = TRUE] /\ ppc' = "closed"
              /\ UNCHANGED <<exists, gen, pending, active, old, wpc, wkey, wgen, wblk, pkey, pemptySeen, nextB, acked, delivered, dropped>>
PurgeRemove == /\ ppc = "closed"
               /\ exists' = [exists EXCEPT ![pkey] = FALSE]
               /\ dropped' = dropped \cup {[id |-> b, why |-> IF pemptySeen THEN "purged-as-empty" ELSE "inactive-and-old"] : b \in Range(pending[pkey])}
               /\ pending' = [pending EXCEPT ![pkey] = <<>>]
               /\ ppc' = "idle" /\ pkey' = NoKey
               /\ UNCHANGED <<closed, gen, active, old, wpc, wkey, wgen, wblk, pemptySeen, nextB, acked, delivered>>

\* the node processor's own loop
Send(p) == /\ exists[p] /\ ~closed[p] /\ active[NodeOf(p)] /\ pending[p] # <<>>
           /\ delivered' = delivered \cup {Head(pending[p])} /\ pending' = [pending EXCEPT ![p] = Tail(@)]
           /\ UNCHANGED <<exists, closed, gen, active, old, wpc, wkey, wgen, wblk, ppc, pkey, pemptySeen, nextB, acked, dropped>>

NodeRemoved(n) == /\ active[n] /\ active' = [active EXCEPT ![n] = FALSE]
                  /\ UNCHANGED <<exists, closed, gen, pending, old, wpc, wkey, wgen, wblk, ppc, pkey, pemptySeen, nextB, acked, delivered, dropped>>
Age(p) == /\ exists[p] /\ ~old[p] /\ old' = [old EXCEPT ![p] = TRUE]
          /\ UNCHANGED <<exists, closed, gen, pending, active, wpc, wkey, wgen, wblk, ppc, pkey, pemptySeen, nextB, acked, delivered, dropped>>

Next == \/ \E w \in Writers : WAppend(w) \/ \E p \in Procs : Lookup(w, p)
        \/ \E p \in Procs : PurgeCheck(p) \/ Send(p) \/ Age(p)
        \/ PurgeClose \/ PurgeRemove
        \/ \E n \in Nodes : NodeRemoved(n)
Spec == Init /\ [][Next]_vars

AllPending == UNION {Range(pending[p]) : p \in Procs}
\* C04 at the service level: an acknowledged block is delivered, still queued, or discarded for a documented reason
C04_ServiceNoLoss == \A b \in acked : \/ b \in delivered \/ b \in AllPending
                                      \/ \E d \in dropped : d.id = b /\ d.why = "inactive-and-old"
=============================================================================
