--------------------------- MODULE ClusterWriteGen ---------------------------
(* Enumerates every maximal path of ClusterWrite (BFS with the history in the state) and    *)
(* prints each as JSON for the replay on the real PointsWriter.                            *)
(*                                                                                        *)
(* Owner goroutines interact only through the result channel, so interleavings of their   *)
(* internal steps are not distinguished: one owner runs from its first call to its send    *)
(* without interruption, the collector consumes a result as soon as it was sent, and the   *)
(* timer fires only between two such blocks.  What is enumerated completely: every         *)
(* configuration, every outcome of every call, every arrival order at the collector, a     *)
(* timeout before every arrival, remote owners that answer only after the collector has    *)
(* returned.  After the collector has returned the remaining owners finish in index order  *)
(* (their order can no longer be observed by anything).                                    *)
EXTENDS ClusterWrite, Json

CONSTANTS GenN,      \* set of owner counts to generate (subset of 1..MaxN)
          GenHang    \* generate DirectHang steps

VARIABLE hist
gvars == <<vars, hist>>

InProg == {o \in Owners : pc[o] \in {"create", "retry", "hhq", "direct", "hhr", "done"}}
Waiting == {o \in Owners : pc[o] \in {"start", "hung"}}
Turn(o) ==
  IF InProg # {} THEN o \in InProg
  ELSE IF ret = "none" THEN chan = <<>> /\ pc[o] = "start"
  ELSE o \in Waiting /\ \A p \in Waiting : o <= p

Log(a, o, r) == hist' = Append(hist, <<a, o, r>>)

\* with AllowOutOfOrderWrites the queues are never looked at: one representative (all empty) is enough
GInit == /\ Init /\ n \in GenN
         /\ ooo => \A o \in Own : ~qne[o]
         /\ hist = <<>>

GNext ==
  \/ \E o \in Owners : Turn(o) /\
       \/ \E r \in {"ok", "err", "notfound"} : LocalWrite(o, r) /\ Log("LocalWrite", o, r)
       \/ \E r \in {"ok", "err"} : LocalCreate(o, r) /\ Log("LocalCreate", o, r)
       \/ \E r \in {"ok", "err"} : LocalRetry(o, r) /\ Log("LocalRetry", o, r)
       \/ RemoteBegin(o) /\ Log("RemoteBegin", o, IF ooo THEN "skip" ELSE IF qne[o] THEN "nonempty" ELSE "empty")
       \/ \E acc \in BOOLEAN : HHOfferQueued(o, acc) /\ Log("HHOfferQueued", o, IF acc THEN "accept" ELSE "refuse")
       \/ \E acc \in BOOLEAN : HHOfferRetry(o, acc) /\ Log("HHOfferRetry", o, IF acc THEN "accept" ELSE "refuse")
       \/ \E r \in {"ok", "retryable", "permanent"} : Direct(o, r) /\ Log("Direct", o, r)
       \/ GenHang /\ DirectHang(o) /\ Log("DirectHang", o, "hang")
       \/ Send(o) /\ Log("Send", o, res[o])
  \/ InProg = {} /\ Recv /\ Log("Recv", chan[1][1], ret')
  \/ InProg = {} /\ chan = <<>> /\ Timeout /\ Log("Timeout", 0, "timeout")

GSpec == GInit /\ [][GNext]_gvars

Terminal == ret # "none" /\ \A o \in Owners : pc[o] = "sent"

Out == [n |-> n, coord |-> coord, level |-> level, ooo |-> ooo,
        qne |-> [o \in Owners |-> qne[o]],
        steps |-> hist,
        exp |-> [ret |-> ret, calls |-> [o \in Owners |-> calls[o]],
                 stored |-> stored, hhAcc |-> hhAcc, delivered |-> delivered,
                 met |-> MetBy(Owners), metInTime |-> MetBy(delivered)]]

Emit == Terminal => PrintT(<<"BEHAVIOUR", ToJson(Out)>>)
=============================================================================
