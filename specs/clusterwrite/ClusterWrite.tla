---------------------------- MODULE ClusterWrite ----------------------------
(* C03 - a cluster write honours the requested consistency level.                        *)
(*                                                                                       *)
(* Model of coordinator/points_writer.go PointsWriter.writeToShardWithContext: one        *)
(* goroutine per shard owner (local store, or remote: hinted-handoff queue check, direct  *)
(* write through the ShardWriter, hand-off offer), the buffered result channel `ch`, and  *)
(* the collector loop (count successes, early return at wrote >= required, timeout, final *)
(* classification).  One action per call the owner goroutine makes on its collaborators   *)
(* (TSDBStore, HintedHandoff, ShardWriter) and per channel operation, so that every       *)
(* generated behaviour can be replayed on the real PointsWriter with scripted, gated      *)
(* collaborators (harness/coordinator/zz_verif_clusterwrite_test.go).                     *)
(*                                                                                       *)
(* The configuration (number of owners, position of the coordinator, level,               *)
(* AllowOutOfOrderWrites, which hand-off queues are non-empty) is chosen in Init, so one  *)
(* TLC run covers all configurations.                                                     *)
EXTENDS Integers, Sequences, FiniteSets, TLC

CONSTANTS MaxN,     \* owners are 1..n for n \in 1..MaxN
          Levels,   \* subset of {"any", "one", "quorum", "all"}
          OOO,      \* values of PointsWriter.AllowOutOfOrderWrites to cover, subset of BOOLEAN
          Coords,   \* coordinator positions to cover, subset of 0..MaxN (0 = the coordinator owns no copy)
          Dev       \* deviations of the code from the property that are modelled on request:
                    \*   "anyIgnoresQueuedHandoff" (F5): level any, hand-off accepted because the
                    \*   queue was non-empty, is reported to the collector as an error

Own == 1..MaxN

VARIABLES
  n, coord, level, ooo, qne,   \* configuration: owners 1..n; coord = 0: coordinator owns no copy;
                               \* qne[o]: HintedHandoff.Empty(shard, o) is false
  pc,        \* per owner: where its goroutine is
  res,       \* per owner: the result it sends / has sent on ch ("ok" = nil error)
  calls,     \* per owner: the calls its goroutine made, in order (observation)
  retry,     \* owners whose direct write failed with a retryable error (history)
  stored,    \* owners whose store has the points (truth, for the oracle)
  hhAcc,     \* owners for which hinted handoff accepted the points (truth, for the oracle)
  chan,      \* the result channel: sequence of <<owner, result>>
  wrote, recvd, ret,           \* collector: successes counted, results consumed, return class
  delivered  \* owners whose result the collector consumed before it returned (history)

cfgvars == <<n, coord, level, ooo, qne>>
ownvars == <<pc, res, calls, retry, stored, hhAcc>>
colvars == <<wrote, recvd, ret, delivered>>
vars == <<cfgvars, ownvars, chan, colvars>>

Owners == 1..n
IsLocal(o) == o = coord

\* required := len(owners); any, one: 1; quorum: required/2 + 1     (points_writer.go:477-483)
Required == CASE level \in {"any", "one"} -> 1
              [] level = "quorum" -> (n \div 2) + 1
              [] level = "all" -> n

PcVals == {"absent", "start", "create", "retry", "hhq", "direct", "hung", "hhr", "done", "sent"}
ResVals == {"none", "ok", "err", "queued"}
CallVals == {"write", "create", "empty", "direct", "hh"}

TypeOK ==
  /\ n \in 1..MaxN /\ coord \in 0..n /\ level \in Levels /\ ooo \in OOO
  /\ qne \in [Own -> BOOLEAN]
  /\ pc \in [Own -> PcVals] /\ res \in [Own -> ResVals]
  /\ \A o \in Own : Len(calls[o]) <= 3 /\ \A i \in 1..Len(calls[o]) : calls[o][i] \in CallVals
  /\ retry \subseteq Owners /\ stored \subseteq Owners /\ hhAcc \subseteq Owners
  /\ Len(chan) <= n
  /\ wrote \in 0..n /\ recvd \in 0..n /\ delivered \subseteq Owners
  /\ ret \in {"none", "ok", "partial", "failed", "timeout"}

Init ==
  /\ n \in 1..MaxN /\ coord \in (0..n) \cap Coords /\ level \in Levels /\ ooo \in OOO
  /\ qne \in [Own -> BOOLEAN]
  /\ \A o \in Own : (o > n \/ o = coord) => ~qne[o]      \* irrelevant entries: canonical value
  /\ pc = [o \in Own |-> IF o <= n THEN "start" ELSE "absent"]
  /\ res = [o \in Own |-> "none"]
  /\ calls = [o \in Own |-> <<>>]
  /\ retry = {} /\ stored = {} /\ hhAcc = {}
  /\ chan = <<>> /\ wrote = 0 /\ recvd = 0 /\ ret = "none" /\ delivered = {}

Call(o, c) == calls' = [calls EXCEPT ![o] = Append(@, c)]
Finish(o, r) == /\ pc' = [pc EXCEPT ![o] = "done"] /\ res' = [res EXCEPT ![o] = r]
Goto(o, p) == /\ pc' = [pc EXCEPT ![o] = p] /\ UNCHANGED res

---------------------------------------------------------------------------------
(* the local owner: TSDBStore.WriteToShard; ErrShardNotFound -> CreateShard -> retry once *)
LocalWrite(o, r) ==       \* r \in {"ok", "err", "notfound"}
  /\ pc[o] = "start" /\ IsLocal(o)
  /\ Call(o, "write")
  /\ CASE r = "ok" -> Finish(o, "ok") /\ stored' = stored \cup {o}
       [] r = "err" -> Finish(o, "err") /\ UNCHANGED stored
       [] r = "notfound" -> Goto(o, "create") /\ UNCHANGED stored
  /\ UNCHANGED <<cfgvars, retry, hhAcc, chan, colvars>>

LocalCreate(o, r) ==      \* r \in {"ok", "err"}
  /\ pc[o] = "create"
  /\ Call(o, "create")
  /\ IF r = "ok" THEN Goto(o, "retry") ELSE Finish(o, "err")
  /\ UNCHANGED <<cfgvars, retry, stored, hhAcc, chan, colvars>>

LocalRetry(o, r) ==       \* r \in {"ok", "err"}  (a second "not found" is just an error)
  /\ pc[o] = "retry"
  /\ Call(o, "write")
  /\ IF r = "ok" THEN Finish(o, "ok") /\ stored' = stored \cup {o}
                 ELSE Finish(o, "err") /\ UNCHANGED stored
  /\ UNCHANGED <<cfgvars, retry, hhAcc, chan, colvars>>

(* a remote owner: queue check (unless AllowOutOfOrderWrites), then hand-off or direct write *)
RemoteBegin(o) ==
  /\ pc[o] = "start" /\ ~IsLocal(o)
  /\ IF ooo THEN Goto(o, "direct") /\ UNCHANGED calls
            ELSE Call(o, "empty") /\ Goto(o, IF qne[o] THEN "hhq" ELSE "direct")
  /\ UNCHANGED <<cfgvars, retry, stored, hhAcc, chan, colvars>>

\* the queue is non-empty: the points go behind it.  Accepted: ErrHintedHandoffQueueNotEmpty is sent
\* to the collector - unless the level is any, where a durable hand-off is a success (repaired F5).
HHOfferQueued(o, acc) ==
  /\ pc[o] = "hhq"
  /\ Call(o, "hh")
  /\ IF acc THEN /\ hhAcc' = hhAcc \cup {o}
                 /\ Finish(o, IF level = "any" /\ "anyIgnoresQueuedHandoff" \notin Dev THEN "ok" ELSE "queued")
            ELSE /\ UNCHANGED hhAcc /\ Finish(o, "err")
  /\ UNCHANGED <<cfgvars, retry, stored, chan, colvars>>

Direct(o, r) ==           \* r \in {"ok", "retryable", "permanent"}; hh.IsRetryable decides
  /\ pc[o] \in {"direct", "hung"}
  /\ pc[o] = "hung" => ret # "none"        \* a hung remote answers, if ever, after the collector returned
  /\ IF pc[o] = "direct" THEN Call(o, "direct") ELSE UNCHANGED calls
  /\ CASE r = "ok" -> Finish(o, "ok") /\ stored' = stored \cup {o} /\ UNCHANGED retry
       [] r = "retryable" -> Goto(o, "hhr") /\ retry' = retry \cup {o} /\ UNCHANGED stored
       [] r = "permanent" -> Finish(o, "err") /\ UNCHANGED <<stored, retry>>
  /\ UNCHANGED <<cfgvars, hhAcc, chan, colvars>>

\* the remote does not answer while the collector waits
DirectHang(o) ==
  /\ pc[o] = "direct" /\ ret = "none"
  /\ Call(o, "direct") /\ Goto(o, "hung")
  /\ UNCHANGED <<cfgvars, retry, stored, hhAcc, chan, colvars>>

\* retryable failure: offer to hinted handoff; accepted counts as a success only under any
HHOfferRetry(o, acc) ==
  /\ pc[o] = "hhr"
  /\ Call(o, "hh")
  /\ IF acc THEN /\ hhAcc' = hhAcc \cup {o} /\ Finish(o, IF level = "any" THEN "ok" ELSE "err")
            ELSE /\ UNCHANGED hhAcc /\ Finish(o, "err")
  /\ UNCHANGED <<cfgvars, retry, stored, chan, colvars>>

\* ch <- &AsyncWriteResult{owner, err}: the channel has room for every owner, the send never blocks
Send(o) ==
  /\ pc[o] = "done"
  /\ chan' = Append(chan, <<o, res[o]>>)
  /\ pc' = [pc EXCEPT ![o] = "sent"]
  /\ UNCHANGED <<cfgvars, res, calls, retry, stored, hhAcc, colvars>>

---------------------------------------------------------------------------------
(* the collector: for range owners { select { timeout | result } } then classify *)
Recv ==
  /\ ret = "none" /\ chan # <<>>
  /\ LET o == chan[1][1]
         r == chan[1][2]
         w2 == IF r = "ok" THEN wrote + 1 ELSE wrote
         k2 == recvd + 1 IN
     /\ chan' = SubSeq(chan, 2, Len(chan))
     /\ wrote' = w2 /\ recvd' = k2
     /\ delivered' = delivered \cup {o}
     /\ ret' = IF r = "ok" /\ w2 >= Required THEN "ok"
               ELSE IF k2 = n THEN (IF w2 > 0 THEN "partial" ELSE "failed")
               ELSE "none"
  /\ UNCHANGED <<cfgvars, ownvars>>

\* the WriteTimeout timer fires while the collector waits in the select (results may be waiting in
\* the channel: Go's select picks either)
Timeout ==
  /\ ret = "none"
  /\ ret' = "timeout"
  /\ UNCHANGED <<cfgvars, ownvars, chan, wrote, recvd, delivered>>

Next ==
  \/ \E o \in Owners :
       \/ \E r \in {"ok", "err", "notfound"} : LocalWrite(o, r)
       \/ \E r \in {"ok", "err"} : LocalCreate(o, r) \/ LocalRetry(o, r)
       \/ RemoteBegin(o)
       \/ \E acc \in BOOLEAN : HHOfferQueued(o, acc) \/ HHOfferRetry(o, acc)
       \/ \E r \in {"ok", "retryable", "permanent"} : Direct(o, r)
       \/ DirectHang(o)
       \/ Send(o)
  \/ Recv
  \/ Timeout

Spec == Init /\ [][Next]_vars

---------------------------------------------------------------------------------
(* The property, written from its statement (not from the code above).                 *)
Count(S) == Cardinality(S)

\* the level is met by the owners in S
MetBy(S) == CASE level = "one" -> Count(S \cap stored) >= 1
              [] level = "quorum" -> 2 * Count(S \cap stored) > n         \* a majority of the owners
              [] level = "all" -> Count(S \cap stored) = n
              [] level = "any" -> (S \cap stored) # {} \/ (S \cap hhAcc) # {}

\* owners that count as successful for the classification
Succ(S) == (S \cap stored) \cup (IF level = "any" THEN S \cap hhAcc ELSE {})

\* success is reported only if the level was met
C03_SuccessOnlyIfMet == ret = "ok" => MetBy(Owners)

\* ... and it is reported whenever the results that reached the collector in time meet the level
\* (a result still in the channel when the timer fires may or may not be counted: Go's select)
C03_SuccessIfMetInTime == MetBy(delivered) => ret = "ok"

NumHH(o) == Count({i \in 1..Len(calls[o]) : calls[o][i] = "hh"})
NumDirect(o) == Count({i \in 1..Len(calls[o]) : calls[o][i] = "direct"})
MustHandOff(o) == ~IsLocal(o) /\ ((~ooo /\ qne[o]) \/ o \in retry)

\* offered to hinted handoff exactly once iff remote and (retryable failure or non-empty queue);
\* never for the local owner, a permanent rejection or a success; never a direct write that would
\* overtake a non-empty queue
C03_HHExactlyOnce ==
  \A o \in Owners :
    /\ NumHH(o) <= 1
    /\ NumHH(o) = 1 => MustHandOff(o)
    /\ pc[o] \in {"done", "sent"} => NumHH(o) = (IF MustHandOff(o) THEN 1 ELSE 0)
    /\ (~ooo /\ qne[o]) => NumDirect(o) = 0
    /\ IsLocal(o) => NumDirect(o) = 0

\* too few successful owners: partial write; none: failure; neither without having heard every owner
C03_Classification ==
  /\ ret = "partial" => recvd = n /\ ~MetBy(delivered) /\ Succ(delivered) # {}
  /\ ret = "failed" => recvd = n /\ Succ(delivered) = {}
  /\ ret = "timeout" => recvd < n /\ ~MetBy(delivered)
  /\ ret = "ok" => wrote >= 1

\* non-vacuity probes (configured as invariants that must be VIOLATED, see checks/c03.py)
Probe_PartialReachable == ret # "partial"
Probe_AnyByQueuedHandoff == ~(level = "any" /\ ret = "ok" /\ stored = {} /\ retry = {})
Probe_TimeoutReachable == ~(ret = "timeout" /\ delivered # {})
Probe_LateHandoff == ~(ret = "timeout" /\ \E o \in Owners : o \notin delivered /\ o \in hhAcc /\ pc[o] = "sent")
=============================================================================
