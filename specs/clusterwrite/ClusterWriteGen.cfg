\* reference config for manual path enumeration (prints one <<"BEHAVIOUR", json>> line per maximal path)
SPECIFICATION GSpec
CONSTANTS
  MaxN = 3
  Levels = {"any", "one", "quorum", "all"}
  OOO = {TRUE, FALSE}
  Coords = {0, 1, 2, 3}
  Dev = {}
  GenN = {1, 2}
  GenHang = TRUE
INVARIANT Emit
CHECK_DEADLOCK FALSE
