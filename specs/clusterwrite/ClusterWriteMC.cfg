\* reference config (checks/c03.py generates its configs from Python dicts; this one is for manual runs:
\*   cp -r specs/clusterwrite /tmp/x && cd /tmp/x && timeout 120 tlc -workers 8 -config ClusterWriteMC.cfg ClusterWrite)
SPECIFICATION Spec
CONSTANTS
  MaxN = 3
  Levels = {"any", "one", "quorum", "all"}
  OOO = {TRUE, FALSE}
  Coords = {0, 1, 2, 3}
  Dev = {}
INVARIANTS TypeOK C03_SuccessOnlyIfMet C03_SuccessIfMetInTime C03_HHExactlyOnce C03_Classification
CHECK_DEADLOCK FALSE
