----------------------------- MODULE Retention -----------------------------
(* C17 - retention removes only expired data, and removes all of it.                      *)
(*                                                                                        *)
(* services/retention/service.go (one enforcement pass = one iteration of run()), the     *)
(* predicates of services/meta/data.go it relies on (ExpiredShardGroups,                  *)
(* DeletedShardGroups, DeleteShardGroup, PruneShardGroups) and the write-time cut-off of  *)
(* coordinator/points_writer.go.                                                          *)
(*                                                                                        *)
(* Time unit = 30 minutes.  Group ends and policy durations are even (whole hours), `now` *)
(* is any integer: an even `now` can sit exactly on an expiry boundary (exercised on the  *)
(* real code through the pure predicates with an explicit t), an odd `now` is at least    *)
(* half an hour from every boundary (what the service, which reads the wall clock, is     *)
(* driven with).                                                                          *)
(*                                                                                        *)
(* Boundary, as the code and the property's anchor state it: a group is expired iff       *)
(*     Duration # 0  /\  EndTime + Duration < now          (strictly; EndTime, not        *)
(* TruncatedAt).  A point is too old at write time iff  Duration # 0 /\ t < now-Duration. *)
(*                                                                                        *)
(* del: "no" | "recent" (DeletedAt within ShardGroupDeletedExpiration = 14 days) | "old"  *)
(* (deleted more than 14 days ago: PruneShardGroups removes it from the metadata).        *)
EXTENDS Integers, Sequences, FiniteSets, TLC

CONSTANTS RPs,        \* retention policies, e.g. {1, 2}
          Durs,       \* durations a policy can have (0 = infinite), even
          Ends,       \* end instants of the groups of the initial metadata (even); a group spans [end-2, end)
          NG,         \* number of groups in the initial metadata
          DelKinds,   \* initial deletion states, subset of {"no", "recent", "old"}
          Nodes,      \* data nodes, each runs the service over its own local shards
          Now0s,      \* initial values of now
          MaxNow,     \* Tick stops here
          TickBy,     \* 1 or 2 (2 keeps the parity of now)
          MaxErr,     \* total number of failing calls in a behaviour (finitely many errors)
          MaxAlter,   \* total number of duration changes in a behaviour
          Unknown,    \* id of a local shard the metadata has never heard of
          FullLocal   \* TRUE: every node initially holds every shard and the unknown one (most general for safety)

VARIABLES now, dur, G, local, errs, alters, last

vars == <<now, dur, G, local, errs, alters, last>>

GIds == 1..NG
\* one shard per group (one data node owns everything in the metadata); shard id = group id
ShardOf(g) == g
NoCalls == [node |-> 0, dsg |-> <<>>, ds |-> <<>>, prune |-> "none"]

Known(g) == ~G[g].pruned
Deleted(g) == G[g].del # "no"
\* RetentionPolicyInfo.ExpiredShardGroups(t): not deleted, finite duration, end + duration strictly before t
ExpiredAt(g, t) == /\ Known(g) /\ ~Deleted(g)
                   /\ dur[G[g].rp] # 0 /\ G[g].e + dur[G[g].rp] < t
Expired(g) == ExpiredAt(g, now)
ExpiredSet == {g \in GIds : Expired(g)}
\* RetentionPolicyInfo.DeletedShardGroups()
DeletedSet == {g \in GIds : Known(g) /\ Deleted(g)}

\* the write-time cut-off of MapShards: min = now - Duration; dropped iff t < min
TooOld(rp, t) == dur[rp] # 0 /\ t < now - dur[rp]

-----------------------------------------------------------------------------
Init ==
  /\ now \in Now0s
  /\ dur \in [RPs -> Durs]
  /\ G \in [GIds -> [rp : RPs, e : Ends, del : DelKinds, pruned : {FALSE}]]
  \* groups of one policy overlap only if the earlier one (lower id) was deleted before the later one was created
  \* (Data.CreateShardGroup never creates a group over a live one)
  /\ \A g, h \in GIds : (g < h /\ G[g].rp = G[h].rp /\ G[g].e = G[h].e) => Deleted(g)
  /\ local \in (IF FullLocal THEN {[n \in Nodes |-> GIds \cup {Unknown}]} ELSE [Nodes -> SUBSET (GIds \cup {Unknown})])
  /\ errs = MaxErr /\ alters = MaxAlter
  /\ last = NoCalls

SetToSeq(S) == LET RECURSIVE F(_)
                   F(X) == IF X = {} THEN <<>> ELSE LET m == CHOOSE x \in X : \A y \in X : x <= y IN <<m>> \o F(X \ {m})
               IN F(S)

\* One pass of the service on node n.  fg: expired groups whose DeleteShardGroup call fails,
\* fs: shard ids whose DeleteShard call fails, fp: PruneShardGroups fails.
Pass(n, fg, fs, fp) ==
  LET snapDeleted == DeletedSet                    \* from the Databases() snapshot
      expired == ExpiredSet                        \* same snapshot, wall clock read now
      marked == expired \ fg                       \* DeleteShardGroup succeeded
      deletable == {ShardOf(g) : g \in snapDeleted \cup marked}     \* deletedShardIDs
      cand == local[n] \cap deletable
      removed == cand \ fs
      G1 == [g \in GIds |-> IF g \in marked THEN [G[g] EXCEPT !.del = "recent"] ELSE G[g]]
      G2 == IF fp THEN G1
            ELSE [g \in GIds |-> IF G1[g].del = "old" THEN [G1[g] EXCEPT !.pruned = TRUE] ELSE G1[g]]
      nerr == Cardinality(fg) + Cardinality(fs) + (IF fp THEN 1 ELSE 0)
  IN /\ fg \subseteq expired /\ fs \subseteq cand
     /\ nerr <= errs
     /\ errs' = errs - nerr
     /\ G' = G2
     /\ local' = [local EXCEPT ![n] = local[n] \ removed]
     /\ last' = [node |-> n,
                 dsg |-> [i \in 1..Cardinality(expired) |-> LET g == SetToSeq(expired)[i] IN [g |-> g, ok |-> g \notin fg]],
                 ds |-> [i \in 1..Cardinality(cand) |-> LET s == SetToSeq(cand)[i] IN [id |-> s, ok |-> s \notin fs]],
                 prune |-> IF fp THEN "err" ELSE "ok"]
     /\ UNCHANGED <<now, dur, alters>>

Tick == /\ now + TickBy <= MaxNow
        /\ now' = now + TickBy
        /\ last' = NoCalls
        /\ UNCHANGED <<dur, G, local, errs, alters>>

\* ALTER RETENTION POLICY ... DURATION (durations altered after groups exist)
AlterDur(rp, d) == /\ alters > 0 /\ d # dur[rp]
                   /\ dur' = [dur EXCEPT ![rp] = d]
                   /\ alters' = alters - 1
                   /\ last' = NoCalls
                   /\ UNCHANGED <<now, G, local, errs>>

PassAny(n) == \E fg \in SUBSET GIds, fs \in SUBSET GIds, fp \in BOOLEAN : Pass(n, fg, fs, fp)

Next == \/ \E n \in Nodes : PassAny(n)
        \/ Tick
        \/ \E rp \in RPs, d \in Durs : AlterDur(rp, d)

Spec == Init /\ [][Next]_vars
\* weak fairness of the pass on every node; errors are finite by construction (errs), so is the clock (MaxNow)
\* and the number of duration changes (alters): no state constraint is needed
FairSpec == Spec /\ \A n \in Nodes : WF_vars(PassAny(n))

-----------------------------------------------------------------------------
(* Properties                                                                *)

TypeOK == /\ now \in Int /\ dur \in [RPs -> Durs]
          /\ \A g \in GIds : G[g].del \in {"no", "recent", "old"} /\ G[g].pruned \in BOOLEAN
          /\ local \in [Nodes -> SUBSET (GIds \cup {Unknown})]
          /\ errs \in 0..MaxErr /\ alters \in 0..MaxAlter

\* the state the calls of the last pass were made against: a group the pass itself marked counts as expired
\* at the time of the DeleteShard call (it was expired when the pass looked, and is deleted now)
C17_DeleteOnlyIfAllowed ==
  \A i \in 1..Len(last.ds) :
     LET id == last.ds[i].id IN
     /\ id # Unknown
     /\ \E g \in GIds : ShardOf(g) = id /\ Deleted(g)     \* deleted in the metadata (before, or marked by this pass because expired)
\* as an action property: whatever leaves a node's local set belonged to a group that was deleted or expired before the step
C17_RemoveOnlyIfAllowed ==
  [][\A n \in Nodes : \A id \in local[n] \ local'[n] :
        id # Unknown /\ \E g \in GIds : ShardOf(g) = id /\ Known(g) /\ (Deleted(g) \/ Expired(g))]_vars
\* the service marks a group deleted only if it is expired: never under the infinite policy, never younger data
C17_MarkOnlyIfExpired ==
  [][\A g \in GIds : (~Deleted(g) /\ G'[g].del # "no") => Expired(g)]_vars
C17_InfiniteNeverExpires ==
  /\ \A g \in GIds : dur[G[g].rp] = 0 => ~Expired(g)
  /\ \A i \in 1..Len(last.dsg) : dur[G[last.dsg[i].g].rp] # 0
\* a group holding an instant that a write would still accept is not expired (so retention never removes data
\* younger than the retention period), and nothing is dropped under the infinite policy
C17_WriteDropIffTooOld ==
  \A g \in GIds : \A t \in (G[g].e - 2)..(G[g].e - 1) :
     /\ (~TooOld(G[g].rp, t)) => ~Expired(g)
     /\ dur[G[g].rp] = 0 => ~TooOld(G[g].rp, t)
     /\ TooOld(G[g].rp, t) <=> (dur[G[g].rp] # 0 /\ t + dur[G[g].rp] < now)
\* pruning only drops groups that were deleted long ago
C17_PruneOnlyOldDeleted == [][\A g \in GIds : (~G[g].pruned /\ G'[g].pruned) => G[g].del = "old"]_vars

\* liveness: every group that is known to the metadata and expired (or already deleted) ends up marked deleted and
\* gone from every node
AllRemoved == \A g \in GIds : (Known(g) /\ (Expired(g) \/ Deleted(g))) =>
                                 (Deleted(g) /\ \A n \in Nodes : ShardOf(g) \notin local[n])
C17_EventuallyAllRemoved == <>[]AllRemoved

=============================================================================
