---------------------------- MODULE RetentionGen ----------------------------
(* Scenario generator for the replay on the real retention.Service / meta.Data / MapShards.  *)
(*                                                                                          *)
(* hist[1] is the initial metadata + local shard sets, with the table of what the pure       *)
(* predicates must answer for every instant t of a window (exact boundary instants           *)
(* included); every further record is one step - a pass of the service on a node with the    *)
(* scripted failures and the calls the model expects, a clock tick, a duration change - with *)
(* the projected state after it and the table of which write instants are too old.           *)
(* GenLen = 1: every initial state (exhaustive, predicate scenarios; any parity of now).     *)
(* GenLen > 1: behaviours of that length (simulation); the cfg gives odd Now0s and TickBy 2  *)
(* so that the service is always at least half an hour from every boundary.                  *)
EXTENDS Retention, Json

CONSTANT GenLen
VARIABLE hist

gvars == <<vars, hist>>

MinS(S) == CHOOSE x \in S : \A y \in S : x <= y
MaxS(S) == CHOOSE x \in S : \A y \in S : y <= x

ProjGroups(GG) == [g \in GIds |-> [id |-> g, rp |-> GG[g].rp, e |-> GG[g].e, del |-> GG[g].del, pruned |-> GG[g].pruned]]
\* which even (hour aligned) write instants around the cut-off are too old, per policy, in the primed state
WriteRows == {[rp |-> rp, t |-> t, old |-> (dur'[rp] # 0 /\ t < now' - dur'[rp])] :
                rp \in RPs, t \in {x \in (now' - 7)..(now' + 1) : x % 2 = 0}}
Proj == [now |-> now', dur |-> dur', groups |-> ProjGroups(G'), local |-> local', wr |-> WriteRows]
Log(rec) == hist' = Append(hist, rec @@ [st |-> Proj])

PredTs == (MinS(Ends) - 1)..(MaxS(Ends) + MaxS(Durs) + 2)
PredRows == {[t |-> t, expired |-> {g \in GIds : ExpiredAt(g, t)}] : t \in PredTs}

GInit == /\ Init
         /\ hist = <<[a |-> "init", now |-> now, dur |-> dur, groups |-> ProjGroups(G), local |-> local,
                      deleted |-> DeletedSet, pred |-> PredRows]>>

GPass(n) == \E fg \in SUBSET GIds, fs \in SUBSET GIds, fp \in BOOLEAN :
              /\ Pass(n, fg, fs, fp)
              /\ Log([a |-> "pass", n |-> n, fg |-> fg, fs |-> fs, fp |-> fp, calls |-> last'])
GTick == /\ Tick /\ Log([a |-> "tick", by |-> TickBy])
GAlter(rp, d) == /\ AlterDur(rp, d) /\ Log([a |-> "alter", rp |-> rp, d |-> d])

\* generator only: a shard disappears from a node by other means (dropped by hand, disk replaced), so that
\* the local sets vary without enumerating them in Init
GDropLocal(n, id) == /\ id \in local[n]
                     /\ local' = [local EXCEPT ![n] = local[n] \ {id}]
                     /\ last' = NoCalls
                     /\ UNCHANGED <<now, dur, G, errs, alters>>
                     /\ Log([a |-> "droplocal", n |-> n, id |-> id])

GNext == /\ Len(hist) < GenLen
         /\ \/ \E n \in Nodes : GPass(n)
            \/ GTick
            \/ \E n \in Nodes, id \in GIds \cup {Unknown} : GDropLocal(n, id)
            \/ \E rp \in RPs, d \in Durs : GAlter(rp, d)
GSpec == GInit /\ [][GNext]_gvars

Emit == (Len(hist) = GenLen) => PrintT(<<"BEHAVIOUR", ToJson(hist)>>)
=============================================================================
