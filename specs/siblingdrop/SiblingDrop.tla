---------------------------- MODULE SiblingDrop ----------------------------
(***************************************************************************)
(* C19, "deletes of other series": one delete removes series A, the only   *)
(* series of measurement m in a shard, while writers create OTHER series   *)
(* of m.  tsm1 Engine.deleteSeriesRange then decides that m is empty       *)
(* (index.DropMeasurementIfSeriesNotExist: check, then drop) and removes   *)
(* m's fields (Engine.cleanupMeasurement: "no data in cache/files", then   *)
(* delete from the field set).  A write (Shard.validateSeriesAndFields +   *)
(* Engine.WritePoints) creates its series in the index, then takes the     *)
(* measurement's field object, then puts the point into the cache and is   *)
(* acknowledged.  One action per critical section of the code.             *)
(* AtomicDrop  = TRUE: check and drop are one step w.r.t. series creation. *)
(* CleanupSeesIndex = TRUE: the field-set cleanup (under the field-set     *)
(* lock) aborts when the shard's index has a series of m.                  *)
(* Both FALSE is the behaviour found in the repository.                    *)
(***************************************************************************)
EXTENDS Integers, FiniteSets, TLC

CONSTANTS Writers, AtomicDrop, CleanupSeesIndex

VARIABLES series,     \* series of m in the shard's index ("A" or a writer's own series)
          tomb,       \* series tombstoned by the measurement drop although created by a writer
          mdropped,   \* the measurement is marked deleted in the index
          fieldsGen,  \* generation of the field object of m in the field set (0 = none)
          cache,      \* writers whose point is in the cache
          wpc, wgen,  \* writer: pc and generation of the field object it holds
          acked,      \* writers whose write returned nil
          dpc, dcoll  \* deleter: pc, series collected for tombstoning by DropMeasurement

vars == <<series, tomb, mdropped, fieldsGen, cache, wpc, wgen, acked, dpc, dcoll>>

Init == /\ series = {"A"} /\ tomb = {} /\ mdropped = FALSE /\ fieldsGen = 1 /\ cache = {}
        /\ wpc = [w \in Writers |-> "start"] /\ wgen = [w \in Writers |-> 0] /\ acked = {}
        /\ dpc = "dropSeries" /\ dcoll = {}

\* --- writer -------------------------------------------------------------------------------
\* index.CreateSeriesListIfNotExists: the series exists, the measurement is live again
WCreate(w) == /\ wpc[w] = "start"
              /\ ~(AtomicDrop /\ dpc = "drop")            \* excluded while check-and-drop is in progress
              /\ series' = series \cup {w} /\ mdropped' = FALSE /\ tomb' = tomb \ {w}
              /\ wpc' = [wpc EXCEPT ![w] = "fields"]
              /\ UNCHANGED <<fieldsGen, cache, wgen, acked, dpc, dcoll>>
\* engine.MeasurementFields(name): existing object, or a new one
WFields(w) == /\ wpc[w] = "fields"
              /\ IF fieldsGen = 0 THEN fieldsGen' = 2 ELSE fieldsGen' = fieldsGen
              /\ wgen' = [wgen EXCEPT ![w] = fieldsGen']
              /\ wpc' = [wpc EXCEPT ![w] = "cache"]
              /\ UNCHANGED <<series, tomb, mdropped, cache, acked, dpc, dcoll>>
\* Engine.WritePoints: cache + WAL, then the call returns nil
WCache(w) == /\ wpc[w] = "cache"
             /\ cache' = cache \cup {w} /\ acked' = acked \cup {w}
             /\ wpc' = [wpc EXCEPT ![w] = "done"]
             /\ UNCHANGED <<series, tomb, mdropped, fieldsGen, wgen, dpc, dcoll>>

\* --- deleter (the TSM/cache part of the delete of A is over; the index part follows) -------
DDropSeries == /\ dpc = "dropSeries" /\ series' = series \ {"A"} /\ dpc' = "check"
               /\ UNCHANGED <<tomb, mdropped, fieldsGen, cache, wpc, wgen, acked, dcoll>>
\* MeasurementHasSeries
DCheck == /\ dpc = "check"
          /\ dpc' = IF series = {} THEN "drop" ELSE "end"
          /\ UNCHANGED <<series, tomb, mdropped, fieldsGen, cache, wpc, wgen, acked, dcoll>>
\* DropMeasurement: tombstones for the series it finds now + the measurement tombstone
DDrop == /\ dpc = "drop"
         /\ tomb' = tomb \cup series /\ series' = {} /\ mdropped' = TRUE
         /\ dpc' = "cleanup"
         /\ UNCHANGED <<fieldsGen, cache, wpc, wgen, acked, dcoll>>
\* cleanupMeasurement under the field-set lock: abort when data of m is in the cache (or, repaired, when the
\* index has a series of m again); else the field object of m is removed
DCleanup == /\ dpc = "cleanup"
            /\ IF cache # {} \/ (CleanupSeesIndex /\ series # {}) THEN fieldsGen' = fieldsGen ELSE fieldsGen' = 0
            /\ dpc' = "end"
            /\ UNCHANGED <<series, tomb, mdropped, cache, wpc, wgen, acked, dcoll>>

Next == \/ \E w \in Writers : WCreate(w) \/ WFields(w) \/ WCache(w)
        \/ DDropSeries \/ DCheck \/ DDrop \/ DCleanup
Spec == Init /\ [][Next]_vars

-----------------------------------------------------------------------------
Readable(w) == /\ w \in series /\ w \notin tomb /\ ~mdropped      \* listed by the index
               /\ fieldsGen # 0 /\ wgen[w] = fieldsGen              \* the field it wrote is known to the field set
               /\ w \in cache
\* every acknowledged write stays readable
C19_SiblingAckedReadable == \A w \in acked : Readable(w)
TypeOK == /\ series \subseteq Writers \cup {"A"} /\ fieldsGen \in 0..2 /\ acked \subseteq Writers
=============================================================================
