--------------------------- MODULE QueryFanoutGen ---------------------------
(* Scenario generator for the harness (harness/coordinator/zz_verif_fanout_test.go).  *)
(* Exhaustive BFS over QueryFanout; every terminal state prints its scenario (layout, *)
(* coordinator, fault vector, statement kind) with the outcome the model reaches on   *)
(* this path.  The orchestrator groups the records by scenario: the set of terminal   *)
(* (outcome, reads, taint) records is what the real code may show for that scenario   *)
(* (the code's random owner choice picks one of the paths).                           *)
EXTENDS QueryFanout, Json

Rec == [owners |-> [s \in Shards |-> owners[s]], coord |-> coord, fault |-> fault, kind |-> kind, nsrc |-> nsrc,
        outcome |-> outcome, reads |-> reads, taint |-> taint, unservable |-> Unservable]

Emit == Done => PrintT(<<"BEHAVIOUR", ToJson(Rec)>>)
=============================================================================
