-------------------------- MODULE QueryFanoutTrace --------------------------
(* Validates executions of the real coordinator code against QueryFanout.             *)
(*                                                                                    *)
(* trace.ndjson (written by harness/coordinator/zz_verif_fanout_test.go) is a         *)
(* concatenation of runs; every run is                                                *)
(*   scenario  owners, coord, fault, kind, nsrc -> the model is reset to that scenario*)
(*   map       assign                          -> Map with exactly this assignment    *)
(*   opStart   op                              -> OpStart                             *)
(*   call      node, op, shards                -> Call(g, node) of the group whose    *)
(*             (a request seen by a node)         plan asks node for exactly `shards`  *)
(*                                                (kind meta: MetaCall(node))          *)
(*   opEnd     op, res, dirty                  -> OpEnd; error iff res = "err"; the   *)
(*             (dirty = remoteShardGroup.dirty)   model's dirty sets must be equal    *)
(*   end       outcome, reads                  -> Drain / MetaFinish / nothing, with  *)
(*                                                that outcome and those reads        *)
(* RoundEnd (mark dirty, re-map, give up) and MetaStart are not observed: they are    *)
(* internal steps, so the code's choice among the clean owners is absorbed by TLC's   *)
(* search (the following `call` events select the shuffle that was taken).            *)
(* Acceptance: some behaviour consumes every line; the high-water mark of consumed    *)
(* lines is kept in TLCSet(1) and printed by the postcondition.                       *)
EXTENDS QueryFanout, Json

VARIABLE i        \* index of the next trace line

Trace == ndJsonDeserialize("trace.ndjson")
N == Len(Trace)

tvars == <<vars, i>>

ToSet(seq) == {seq[k] : k \in DOMAIN seq}
Ev == Trace[i]
Max(a, b) == IF a > b THEN a ELSE b

Consume == /\ i' = i + 1
           /\ TLCSet(1, Max(TLCGet(1), i))

TInit ==
  /\ i = 1
  /\ TLCSet(1, 0)
  /\ owners = [s \in Shards |-> {}] /\ coord = CHOOSE n \in Nodes : TRUE
  /\ fault = [n \in Nodes |-> "up"] /\ kind = "none" /\ nsrc = 1
  /\ phase = "done"
  /\ assign = [s \in Shards |-> CHOOSE n \in Nodes : TRUE]
  /\ ops = <<>> /\ opOn = FALSE
  /\ gst = [n \in Nodes |-> "none"]
  /\ plan = [n \in Nodes |-> NoPlan]
  /\ issued = [n \in Nodes |-> {}] /\ failed = [n \in Nodes |-> {}]
  /\ dirty = [n \in Nodes |-> {}] /\ rounds = [n \in Nodes |-> 0]
  /\ metaCalled = {} /\ metaOK = {}
  /\ reads = [s \in Shards |-> 0] /\ servers = [s \in Shards |-> {}] /\ acc = {}
  /\ swallowed = {} /\ mtLost = FALSE /\ ciStalled = FALSE /\ outcome = "none" /\ taint = {}

\* a new run may only start when the previous one was consumed to its end
StartScenario ==
  /\ Ev.e = "scenario" /\ phase = "done"
  /\ owners' = [s \in Shards |-> ToSet(Ev.owners[s])]
  /\ coord' = Ev.coord
  /\ fault' = [n \in Nodes |-> Ev.fault[n]]
  /\ kind' = Ev.kind /\ nsrc' = Ev.nsrc
  /\ phase' = "map"
  /\ assign' = [s \in Shards |-> Ev.coord]
  /\ ops' = OpsOf(Ev.kind, Ev.nsrc) /\ opOn' = FALSE
  /\ gst' = [n \in Nodes |-> "none"]
  /\ plan' = [n \in Nodes |-> NoPlan]
  /\ issued' = [n \in Nodes |-> {}] /\ failed' = [n \in Nodes |-> {}]
  /\ dirty' = [n \in Nodes |-> {}] /\ rounds' = [n \in Nodes |-> 0]
  /\ metaCalled' = {} /\ metaOK' = {}
  /\ reads' = [s \in Shards |-> 0] /\ servers' = [s \in Shards |-> {}] /\ acc' = {}
  /\ swallowed' = {} /\ mtLost' = FALSE /\ ciStalled' = FALSE /\ outcome' = "none" /\ taint' = {}
  /\ Consume

TMap == /\ Ev.e = "map" /\ Map
        /\ assign' = [s \in Shards |-> Ev.assign[s]]
        /\ Consume

TOpStart == /\ Ev.e = "opStart" /\ OpStart /\ Head(ops) = Ev.op /\ Consume

TCall ==
  /\ Ev.e = "call"
  /\ IF kind = "meta"
     THEN /\ Ev.op = "MQ" /\ MetaCall(Ev.node)
     ELSE /\ opOn /\ Ev.op = Head(ops)
          /\ \E g \in Groups : plan[g][Ev.node] = ToSet(Ev.shards) /\ Call(g, Ev.node)
  /\ Consume

DirtyOf(g) == LET m == {x \in ToSet(Ev.dirty) : x.g = g} IN
              IF m = {} THEN {} ELSE ToSet((CHOOSE x \in m : TRUE).d)

TOpEnd ==
  /\ Ev.e = "opEnd" /\ opOn /\ Ev.op = Head(ops) /\ OpEnd
  /\ (Ev.res = "err") <=> (outcome' = "error")
  /\ \A g \in Groups : dirty[g] = DirtyOf(g)
  /\ {x.g : x \in ToSet(Ev.dirty)} = Groups
  /\ Consume

ReadsOf == [s \in Shards |-> Ev.reads[s]]

TEnd ==
  /\ Ev.e = "end"
  /\ \/ /\ phase = "stream" /\ Drain
        /\ outcome' = Ev.outcome /\ (Ev.outcome = "success" => reads' = ReadsOf)
     \/ /\ phase = "meta" /\ MetaFinish
        /\ outcome' = Ev.outcome /\ (Ev.outcome = "success" => reads' = ReadsOf)
     \/ /\ phase = "done" /\ kind \in {"select", "query", "cost"}
        /\ outcome = Ev.outcome /\ (Ev.outcome = "success" => reads = ReadsOf)
        /\ UNCHANGED vars
  /\ Consume

Internal ==
  /\ \/ \E g \in Nodes : RoundEnd(g)
     \/ MetaStart
  /\ UNCHANGED i

TNext ==
  \/ i <= N /\ (StartScenario \/ TMap \/ TOpStart \/ TCall \/ TOpEnd \/ TEnd)
  \/ i <= N /\ Internal

TSpec == TInit /\ [][TNext]_tvars

\* the safety properties of the model hold along every accepted execution
TraceInv == C05_DirtyNotRetried /\ C05_RoundsBounded /\ C05_PlanPartitions /\ C05_NeverTwice

Post == /\ PrintT(<<"HWM", TLCGet(1), N>>)
        /\ TLCGet(1) = N
=============================================================================
