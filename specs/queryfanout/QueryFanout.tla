----------------------------- MODULE QueryFanout -----------------------------
(***************************************************************************)
(* Fan-out of one distributed query (coordinator/shard_mapper.go,          *)
(* coordinator/meta_executor.go, coordinator/statement_executor.go).       *)
(*                                                                         *)
(* A scenario (chosen in Init, constant afterwards) is a shard-ownership   *)
(* layout, the coordinating node, one fault class per node and a statement *)
(* kind.  The behaviour is what the coordinator does with it:              *)
(*                                                                         *)
(*  select/cost:  Map (ClusterShardMapper.mapShards: local first, else an  *)
(*    owner that already has shards, else any owner) gives one remote      *)
(*    shard group per selected node.  Every operation of the statement     *)
(*    (select = FieldDimensions, MapType, CreateIterator; cost =           *)
(*    IteratorCost) runs on all groups: OpStart, then per group            *)
(*    Call(original node, all shards) -> RoundEnd: failure => MarkDirty,   *)
(*    re-map over clean owners (shuffleShards) -> Call... -> RoundEnd, or  *)
(*    GiveUp when a shard has no clean owner; OpEnd collects the results.  *)
(*    The dirty set belongs to the group and survives from one operation   *)
(*    to the next; the first call of every operation goes to the group's   *)
(*    original node again (that is what the code does).                    *)
(*    A select then drains the streams (Drain).                            *)
(*    A statement may name several measurement sources of the one db/rp   *)
(*    (FROM m, m2; subqueries): the shards are mapped ONCE per db/rp (the  *)
(*    "source already mapped" test of mapShards) and every operation runs  *)
(*    once per measurement over the same groups: each shard is read once   *)
(*    per source.                                                          *)
(*  meta: the all-nodes fan-out of MetaExecutor.ExecuteQuery (TagKeys,     *)
(*    TagValues, MeasurementNames, sketches): one call per remote node, no *)
(*    retry, results are set-united.                                       *)
(*                                                                         *)
(* Fault classes of a node:                                                *)
(*   up          serves everything                                         *)
(*   dialFail    cannot be reached at request time (refused / dies before  *)
(*               replying)                                                 *)
(*   errReply    its store reports an error: the reply carries Err         *)
(*   stall       does not reply; the caller's deadline expires             *)
(*   cutMid      healthy at request time; the point stream is cut inside a *)
(*               frame                                                     *)
(*   cutFrame    healthy at request time; the point stream ends at a frame *)
(*               boundary before all points were sent (node dies, or the   *)
(*               server-side iterator fails)                               *)
(*   stallMid    healthy at request time; the stream stalls until the      *)
(*               deadline                                                  *)
(*                                                                         *)
(* The model is the design the property demands.  Behaviour of the code    *)
(* that deviates from it and is recorded rather than repaired is guarded   *)
(* by  d \in Dev  and taints the behaviour:                                *)
(*   F6  an error reply to CreateIterator is taken for an empty stream     *)
(*       (repaired by patches/C05; kept for the negative model run)        *)
(*   F7  a stream that ends at a frame boundary is a clean end             *)
(*   F8  the all-nodes fan-out discards per-node errors                    *)
(*   MTL a statement run by the query engine (kind "query": MapType, then  *)
(*       CreateIterator) whose MapType failed on every group gets the type *)
(*       "unknown" for its field (MapType cannot report an error) and the  *)
(*       engine answers with an empty result without creating iterators    *)
(***************************************************************************)
EXTENDS Integers, Sequences, FiniteSets, TLC

CONSTANTS Nodes,         \* data nodes (strings)
          NShards,       \* shards are 1..NShards in the order the meta store lists them
          Coords,        \* nodes that may coordinate the query
          StreamFaults,  \* remote fault classes explored for kind "select"
          CallFaults,    \* remote fault classes explored for kinds "cost" and "meta"
          LocalFaults,   \* fault classes of the coordinator's own store: subset of {"up","errReply"}
          Kinds,         \* subset of {"select","query","cost","meta"}
          Sources,       \* numbers of measurement sources (of the one db/rp) a statement may have, e.g. {1, 2}
          MinRF, MaxRF,  \* bounds on the number of owners of a shard
          Dev            \* enabled deviations: subset of {"F6","F7","F8","MTL"}

Shards == 1..NShards

VARIABLES owners, coord, fault, kind, nsrc,   \* the scenario (nsrc = measurement sources of the statement)
          phase,      \* "map" | "op" | "stream" | "meta" | "done"
          assign,     \* Shards -> Nodes: the mapping made by Map
          ops,        \* operations still to run (head = current)
          opOn,       \* an operation is in progress
          gst,        \* per group (= its original node): "none" | "call" | "ok" | "fail"
          plan,       \* per group: node -> shards requested from it in the current round
          issued,     \* per group: nodes already called in the current round
          failed,     \* per group: nodes whose call failed in the current round
          dirty,      \* per group: nodes found failing (remoteShardGroup.dirty)
          rounds,     \* per group: retry rounds of the current operation
          metaCalled, metaOK,   \* all-nodes fan-out: nodes called / nodes that answered
          reads,      \* history: Shards -> number of reads that contribute to the result
          servers,    \* history: Shards -> nodes whose read contributes
          acc,        \* history: <<source no, node, shards>> read by the result operations finished so far
          swallowed,  \* history: <<node, op>> error replies that were taken for success
          mtLost,     \* history: a MapType failure was dropped (the interface has no error)
          ciStalled,  \* history: a CreateIterator call waited for its whole deadline (stalled owner)
          outcome,    \* "none" | "success" | "error"
          taint       \* deviations taken on this behaviour

scen == <<owners, coord, fault, kind, nsrc>>
vars == <<owners, coord, fault, kind, nsrc, phase, assign, ops, opOn, gst, plan, issued, failed, dirty, rounds,
          metaCalled, metaOK, reads, servers, acc, swallowed, mtLost, ciStalled, outcome, taint>>

-----------------------------------------------------------------------------
AllFaults == {"up", "dialFail", "errReply", "stall", "cutMid", "cutFrame", "stallMid"}
OwnerSets == {S \in SUBSET Nodes : Cardinality(S) >= MinRF /\ Cardinality(S) <= MaxRF}

\* "select": the three operations of a select driven one by one; "query": what query.Select does for
\* "SELECT value FROM m" (no wildcard: no FieldDimensions)
\* with n measurement sources: "select" runs the three operations per measurement, the engine ("query") maps
\* the type of every source first and then creates one iterator per source, "cost" asks once per source
RECURSIVE Rep(_, _)
Rep(sq, n) == IF n = 0 THEN <<>> ELSE sq \o Rep(sq, n - 1)
OpsOf(k, n) == IF k = "select" THEN Rep(<<"FD", "MT", "CI">>, n)
               ELSE IF k = "query" THEN Rep(<<"MT">>, n) \o Rep(<<"CI">>, n)
               ELSE IF k = "cost" THEN Rep(<<"IC">>, n) ELSE <<>>
Streams(k) == k \in {"select", "query"}

NoPlan == [n \in Nodes |-> {}]
Groups == {assign[s] : s \in Shards} \ {coord}          \* remote groups, named by their original node
GShards(g) == {s \in Shards : assign[s] = g}
LocalShards == {s \in Shards : assign[s] = coord}

\* Does a request of operation o to remote node n fail at request time (so that the caller sees an error)?
\* errReply: the server has an error path for FieldDimensions, IteratorCost, CreateIterator and the
\* metadata queries; processMapTypeRequest cannot fail once the request is decoded (calibrated: service.go).
CallFails(n, o) ==
  \/ fault[n] \in {"dialFail", "stall"}
  \/ /\ fault[n] = "errReply"
     /\ \/ o \in {"FD", "IC", "MQ"}
        \/ o = "CI" /\ "F6" \notin Dev
\* the local part of an operation fails when the local store reports an error (no fail-over for local shards)
LocalFails(o) == fault[coord] = "errReply" /\ o \in {"FD", "IC", "CI", "MQ"} /\ (o = "MQ" \/ LocalShards # {})

\* ClusterShardMapper.mapShards: shards in order; local first; else an owner already selected; else any owner
ValidAssign(a) ==
  \A s \in Shards :
    /\ a[s] \in owners[s]
    /\ coord \in owners[s] => a[s] = coord
    /\ coord \notin owners[s] =>
         LET sel == {a[t] : t \in 1..(s - 1)} \cap owners[s] IN sel # {} => a[s] \in sel

\* remoteShardGroup.shuffleShards with dirty set d: an owner already selected in this shuffle, else a clean owner
ValidShuffle(S, sh, d) ==
  \A s \in S :
    LET sel == {sh[t] : t \in {u \in S : u < s}} \cap owners[s] IN
      IF sel # {} THEN sh[s] \in sel ELSE sh[s] \in owners[s] \ d
NoCleanOwner(S, d) == \E s \in S : owners[s] \subseteq d

\* the first k shards of S in shard order (points of one stream arrive in shard order)
Lower(S, k) == {s \in S : Cardinality({t \in S : t < s}) < k}

-----------------------------------------------------------------------------
Init ==
  /\ kind \in Kinds
  /\ nsrc \in Sources /\ (kind = "meta" => nsrc = 1)
  /\ coord \in Coords
  /\ owners \in [Shards -> OwnerSets]
  /\ \E fl \in LocalFaults, fr \in [Nodes \ {coord} -> (IF Streams(kind) THEN StreamFaults ELSE CallFaults)] :
        fault = [n \in Nodes |-> IF n = coord THEN fl ELSE fr[n]]
  \* a node that owns nothing is never contacted by select/cost: its fault is irrelevant
  /\ \A n \in Nodes \ {coord} : (kind # "meta" /\ \A s \in Shards : n \notin owners[s]) => fault[n] = "up"
  /\ phase = "map"
  /\ assign = [s \in Shards |-> coord]
  /\ ops = OpsOf(kind, nsrc) /\ opOn = FALSE
  /\ gst = [n \in Nodes |-> "none"]
  /\ plan = [n \in Nodes |-> NoPlan]
  /\ issued = [n \in Nodes |-> {}] /\ failed = [n \in Nodes |-> {}]
  /\ dirty = [n \in Nodes |-> {}] /\ rounds = [n \in Nodes |-> 0]
  /\ metaCalled = {} /\ metaOK = {}
  /\ reads = [s \in Shards |-> 0] /\ servers = [s \in Shards |-> {}] /\ acc = {}
  /\ swallowed = {} /\ mtLost = FALSE /\ ciStalled = FALSE /\ outcome = "none" /\ taint = {}

\* ---- select / cost -------------------------------------------------------
Map ==
  /\ phase = "map" /\ kind \in {"select", "query", "cost"}
  /\ \E a \in [Shards -> Nodes] : ValidAssign(a) /\ assign' = a
  /\ phase' = "op"
  /\ UNCHANGED <<scen, ops, opOn, gst, plan, issued, failed, dirty, rounds, metaCalled, metaOK, reads, servers, acc,
                 swallowed, mtLost, ciStalled, outcome, taint>>

OpStart ==
  /\ phase = "op" /\ ~opOn /\ ops # <<>>
  /\ opOn' = TRUE
  /\ gst' = [n \in Nodes |-> IF n \in Groups THEN "call" ELSE "none"]
  \* the first call of every operation goes to the group's original node with all its shards
  /\ plan' = [g \in Nodes |-> IF g \in Groups THEN [n \in Nodes |-> IF n = g THEN GShards(g) ELSE {}] ELSE NoPlan]
  /\ issued' = [n \in Nodes |-> {}] /\ failed' = [n \in Nodes |-> {}]
  /\ rounds' = [n \in Nodes |-> 0]
  /\ UNCHANGED <<scen, phase, assign, ops, dirty, metaCalled, metaOK, reads, servers, acc, swallowed, mtLost, ciStalled, outcome, taint>>

PlanNodes(g) == {n \in Nodes : plan[g][n] # {}}

Call(g, n) ==
  /\ phase = "op" /\ opOn /\ gst[g] = "call"
  /\ n \in PlanNodes(g) /\ n \notin issued[g]
  /\ issued' = [issued EXCEPT ![g] = @ \cup {n}]
  /\ failed' = IF CallFails(n, Head(ops)) THEN [failed EXCEPT ![g] = @ \cup {n}] ELSE failed
  /\ swallowed' = IF fault[n] = "errReply" /\ Head(ops) = "CI" /\ ~CallFails(n, "CI")
                  THEN swallowed \cup {<<n, "CI">>} ELSE swallowed
  \* ... or any later request, while the streams of an earlier source are already open (acc # {})
  /\ ciStalled' = (ciStalled \/ (fault[n] = "stall" /\ (Head(ops) = "CI" \/ acc # {})))
  /\ UNCHANGED <<scen, phase, assign, ops, opOn, gst, plan, dirty, rounds, metaCalled, metaOK, reads, servers, acc,
                 mtLost, outcome, taint>>

\* all calls of the round have returned
RoundEnd(g) ==
  /\ phase = "op" /\ opOn /\ gst[g] = "call" /\ issued[g] = PlanNodes(g)
  /\ IF failed[g] = {}
     THEN /\ gst' = [gst EXCEPT ![g] = "ok"]
          /\ UNCHANGED <<plan, dirty, rounds, issued, failed>>
     ELSE LET d == dirty[g] \cup failed[g] IN            \* MarkDirty
          /\ dirty' = [dirty EXCEPT ![g] = d]
          /\ IF NoCleanOwner(GShards(g), d)
             THEN /\ gst' = [gst EXCEPT ![g] = "fail"]    \* GiveUp: shuffleShards returns nil
                  /\ UNCHANGED <<plan, rounds, issued, failed>>
             ELSE /\ \E sh \in [GShards(g) -> Nodes] :
                        /\ ValidShuffle(GShards(g), sh, d)
                        /\ plan' = [plan EXCEPT ![g] = [n \in Nodes |-> {s \in GShards(g) : sh[s] = n}]]
                  /\ rounds' = [rounds EXCEPT ![g] = @ + 1]
                  /\ issued' = [issued EXCEPT ![g] = {}]
                  /\ failed' = [failed EXCEPT ![g] = {}]
                  /\ UNCHANGED gst
  /\ UNCHANGED <<scen, phase, assign, ops, opOn, metaCalled, metaOK, reads, servers, acc, swallowed, mtLost, ciStalled, outcome, taint>>

\* what the final plans of an operation read: the local shards plus every planned remote request
\* result operations (CreateIterator, IteratorCost) run once per source; their reads are accumulated in acc
SrcNo == Cardinality({a[1] : a \in acc}) + 1
Contribs == {c \in ({<<SrcNo, coord, LocalShards>>} \cup {<<SrcNo, n, plan[g][n]>> : g \in Groups, n \in Nodes}) : c[3] # {}}
CountReads(C) == [s \in Shards |-> Cardinality({c \in C : s \in c[3]})]
WhoReads(C) == [s \in Shards |-> {c[2] : c \in {x \in C : s \in x[3]}}]

OpEnd ==
  /\ phase = "op" /\ opOn /\ \A g \in Groups : gst[g] \in {"ok", "fail"}
  /\ LET o == Head(ops)
         groupFail == \E g \in Groups : gst[g] = "fail"
         \* influxql.FieldMapper.MapType has no error result: a failure is dropped
         err == o # "MT" /\ (LocalFails(o) \/ groupFail)
         \* the query engine builds no iterator for a field whose type nobody could tell
         noType == kind = "query" /\ o = "MT" /\ LocalShards = {} /\ \A g \in Groups : gst[g] = "fail" IN
     /\ mtLost' = (mtLost \/ (o = "MT" /\ groupFail))
     /\ opOn' = FALSE
     /\ IF err \/ (noType /\ "MTL" \notin Dev)
        THEN /\ outcome' = "error" /\ phase' = "done" /\ UNCHANGED <<ops, reads, servers, acc, taint>>
        ELSE IF noType
        THEN /\ outcome' = "success" /\ phase' = "done" /\ taint' = taint \cup {"MTL"}   \* empty result
             /\ UNCHANGED <<ops, reads, servers, acc>>
        ELSE LET acc2 == IF o \in {"CI", "IC"} THEN acc \cup Contribs ELSE acc IN
             /\ acc' = acc2
             /\ IF Len(ops) > 1
                THEN /\ ops' = Tail(ops) /\ UNCHANGED <<outcome, phase, reads, servers, taint>>
                ELSE IF Streams(kind)
                THEN /\ phase' = "stream" /\ UNCHANGED <<ops, outcome, reads, servers, taint>>
                ELSE \* cost: the sum of the replies is the result
                     /\ reads' = CountReads(acc2) /\ servers' = WhoReads(acc2)
                     /\ outcome' = "success" /\ phase' = "done" /\ UNCHANGED <<ops, taint>>
  /\ UNCHANGED <<scen, assign, gst, plan, issued, failed, dirty, rounds, metaCalled, metaOK, swallowed, ciStalled>>

\* Draining the merged iterators of all sources.  A stream cut at a frame boundary delivered k < all of its points.
Drain ==
  /\ phase = "stream"
  /\ LET C == acc
         cutF == {c \in C : fault[c[2]] = "cutFrame"}
         errR == {c \in C : fault[c[2]] = "errReply"}      \* only with F6: the reply was taken for an empty stream
         bad == \/ \E c \in C : fault[c[2]] \in {"cutMid", "stallMid"}
                \/ cutF # {} /\ "F7" \notin Dev
         \* The read deadline set for the reply header stays on the connection (shard-reader-timeout covers
         \* the whole stream): while a stalled owner used up its deadline, the deadline of a stream opened
         \* before may have passed as well - the statement fails with a timeout.
         late == ciStalled /\ \E c \in C : c[2] # coord IN
     IF bad
     THEN /\ outcome' = "error" /\ UNCHANGED <<reads, servers, taint>>
     ELSE \/ /\ late /\ outcome' = "error" /\ UNCHANGED <<reads, servers, taint>>
          \/ /\ \E k \in [cutF -> 0..NShards] :
                   /\ \A c \in cutF : k[c] < Cardinality(c[3])
                   /\ LET D == {IF c \in cutF THEN <<c[1], c[2], Lower(c[3], k[c])>>
                                ELSE IF c \in errR THEN <<c[1], c[2], {}>> ELSE c : c \in C} IN
                      /\ reads' = CountReads(D) /\ servers' = WhoReads(D)
             /\ outcome' = "success"
             /\ taint' = taint \cup (IF cutF # {} THEN {"F7"} ELSE {}) \cup (IF errR # {} THEN {"F6"} ELSE {})
  /\ phase' = "done"
  /\ UNCHANGED <<scen, assign, ops, opOn, gst, plan, issued, failed, dirty, rounds, metaCalled, metaOK, acc, swallowed, mtLost, ciStalled>>

\* ---- all-nodes metadata fan-out -------------------------------------------
MetaStart ==
  /\ phase = "map" /\ kind = "meta"
  /\ phase' = "meta"
  /\ UNCHANGED <<scen, assign, ops, opOn, gst, plan, issued, failed, dirty, rounds, metaCalled, metaOK, reads, servers, acc,
                 swallowed, mtLost, ciStalled, outcome, taint>>

MetaCall(n) ==
  /\ phase = "meta" /\ n \in Nodes \ {coord} /\ n \notin metaCalled
  /\ metaCalled' = metaCalled \cup {n}
  /\ metaOK' = IF CallFails(n, "MQ") THEN metaOK ELSE metaOK \cup {n}
  /\ UNCHANGED <<scen, phase, assign, ops, opOn, gst, plan, issued, failed, dirty, rounds, reads, servers, acc,
                 swallowed, mtLost, ciStalled, outcome, taint>>

MetaFinish ==
  /\ phase = "meta" /\ metaCalled = Nodes \ {coord}
  /\ LET ok == metaOK \cup (IF LocalFails("MQ") THEN {} ELSE {coord})
         covered == {s \in Shards : owners[s] \cap ok # {}}
         anyFail == ok # Nodes IN
     /\ reads' = [s \in Shards |-> IF s \in covered THEN 1 ELSE 0]     \* results are set-united
     /\ servers' = [s \in Shards |-> owners[s] \cap ok]
     /\ IF "F8" \in Dev
        THEN /\ outcome' = "success"                                     \* errors are discarded
             /\ taint' = IF covered # Shards THEN taint \cup {"F8"} ELSE taint
        ELSE /\ outcome' = IF covered = Shards THEN "success" ELSE "error"
             /\ UNCHANGED taint
  /\ phase' = "done"
  /\ UNCHANGED <<scen, assign, ops, opOn, gst, plan, issued, failed, dirty, rounds, metaCalled, metaOK, acc, swallowed, mtLost, ciStalled>>

-----------------------------------------------------------------------------
Next ==
  \/ Map \/ OpStart \/ OpEnd \/ Drain
  \/ \E g \in Nodes : RoundEnd(g) \/ \E n \in Nodes : Call(g, n)
  \/ MetaStart \/ MetaFinish \/ \E n \in Nodes : MetaCall(n)

Spec == Init /\ [][Next]_vars

-----------------------------------------------------------------------------
\* Properties (C05)

Live(n) == fault[n] = "up"
Done == phase = "done"

TypeOK ==
  /\ phase \in {"map", "op", "stream", "meta", "done"}
  /\ outcome \in {"none", "success", "error"}
  /\ (outcome # "none") <=> Done
  /\ taint \subseteq Dev
  /\ \A g \in Nodes : dirty[g] \subseteq Nodes /\ issued[g] \subseteq Nodes /\ failed[g] \subseteq issued[g]

\* on success every shard is read exactly once, from one live owner
C05_ExactlyOnce ==
  (outcome = "success" /\ taint = {}) =>
     \A s \in Shards : /\ reads[s] = nsrc
                       /\ servers[s] # {} /\ servers[s] \subseteq {n \in owners[s] : Live(n)}
                       \* once per measurement source, by one node
                       /\ (kind # "meta" => \A k \in 1..nsrc : Cardinality({a \in acc : a[1] = k /\ s \in a[3]}) = 1)

\* a shard none of whose owners can serve makes the query fail
Unservable == \E s \in Shards : \A n \in owners[s] : ~Live(n)
C05_ErrorIfUnservable == (Done /\ Unservable /\ taint = {}) => outcome = "error"

\* success is never partial (also: never double)
C05_NeverSilentlyPartial == (outcome = "success" /\ taint = {}) => \A s \in Shards : reads[s] >= nsrc
C05_NeverSilentlyPartialStrict == outcome = "success" => \A s \in Shards : reads[s] = nsrc
C05_NeverTwice == outcome = "success" => \A s \in Shards : reads[s] <= nsrc

\* an error reply is never taken for a result
C05_ErrorReplySurfaces == taint = {} => swallowed = {}
C05_ErrorReplySurfacesStrict == swallowed = {}

\* a dropped MapType failure is always followed by an error of the statement (static faults)
C05_MapTypeFailureCovered == (Done /\ mtLost /\ taint = {}) => outcome = "error"

\* fail-over at request time works: with request-time faults only, a healthy coordinator and one live owner
\* per shard the statement succeeds
RequestTimeOnly == \A n \in Nodes : fault[n] \in {"up", "dialFail", "errReply", "stall"}
C05_FailoverAtRequestTime ==
  (Done /\ fault[coord] = "up" /\ RequestTimeOnly /\ ~Unservable /\ ~ciStalled) => outcome = "success"

\* errors need a cause
C05_NoSpuriousError == outcome = "error" => \E n \in Nodes : ~Live(n)

\* the retry loop makes progress: no dirty node is asked again within an operation, rounds are bounded
C05_DirtyNotRetried ==
  \A g \in Nodes : (gst[g] = "call" /\ rounds[g] > 0) => \A n \in PlanNodes(g) : n \notin dirty[g]
C05_RoundsBounded == \A g \in Nodes : rounds[g] <= Cardinality(Nodes)
\* in every round the plan of a group partitions the group's shards over owners
C05_PlanPartitions ==
  \A g \in Nodes : gst[g] \in {"call", "ok"} =>
     /\ UNION {plan[g][n] : n \in Nodes} = GShards(g)
     /\ \A n, m \in Nodes : n # m => plan[g][n] \cap plan[g][m] = {}
     /\ \A n \in Nodes : \A s \in plan[g][n] : n \in owners[s]
=============================================================================
