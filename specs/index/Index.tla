------------------------------- MODULE Index -------------------------------
(* C14 - the series index always matches the data, for both index types.               *)
(*                                                                                     *)
(* One database, shards Shards (disjoint time ranges), the series universe U (numbers   *)
(* into a fixed table of [measurement, k1, k2]; a missing tag is the value "").         *)
(*                                                                                     *)
(* REFERENCE state: pts - which series has a point at which time slot of which shard.   *)
(*   live(sh) = series with at least one point in sh.  Every listing the property talks *)
(*   about is a function of a set of series (Answers below, written from the InfluxQL   *)
(*   semantics: a missing tag equals '').                                               *)
(* PHYSICAL state (what the code keeps, written from tsdb/index/tsi1, tsdb/index/inmem, *)
(*   tsdb/series_file.go, tsdb/engine/tsm1/engine.go:deleteSeriesRange):               *)
(*   gen, sfLive   series file: the current id of series s is <<s, gen[s]>>; a series   *)
(*                 removed from the whole database is tombstoned there and gets a new   *)
(*                 id when it is written again;                                         *)
(*   tsi[sh]       the TSI file set of the shard, newest first: the active log file     *)
(*                 (level 0) and index files of level 1..MaxLevel, each with the ids it *)
(*                 adds and the ids it tombstones (Partition.buildSeriesSet: oldest to  *)
(*                 newest, "remove tombstones, then add");                              *)
(*   tagSrc[sh]    the series whose tag key / tag value entries the shard's TSI files    *)
(*                 list (unfiltered SHOW TAG KEYS / VALUES read these entries, not the  *)
(*                 series; see the recorded deviation "tsiTagEntriesLinger" below);     *)
(*   inmG, inmS    the database-wide in-memory index and the per-shard id bitsets of    *)
(*                 inmem.ShardIndex; both are rebuilt from the stored keys at open      *)
(*                 (Engine.LoadMetadataIndex);                                          *)
(*   sfDirty       whether the series-file index holds entries that the next compaction  *)
(*                 moves to disk;                                                       *)
(*   cache, spans  where the points are: cache[sh][s] = slots of s in the shard's cache *)
(*                 (and WAL); spans[sh][s] = for every TSM file that has a key of s,    *)
(*                 the slots its index entry spans.  deleteSeriesRange keeps a series   *)
(*                 in the index as long as a cache entry or a TSM key of it exists, and *)
(*                 a TSM key goes away only when a delete covers its whole span.        *)
(* Logical actions: Create (a write; Recreate when the series was dropped before),      *)
(*   DropSeries (DELETE/DROP SERIES by measurement and/or tag predicate, for all time,  *)
(*   for the time range of one shard, or for one time slot), DropMeasurement.           *)
(* Physical actions, which must be invisible: LogToIndexFile, CompactLevel,             *)
(*   SeriesFileCompact, Snapshot, Reopen.                                               *)
(* The model describes the code with the repairs patches/C14/01..05 (see notes/C14.md). *)
EXTENDS Integers, Sequences, FiniteSets, TLC

CONSTANTS U,          \* subset of 0..17
          Shards,     \* e.g. {1, 2}
          Slots,      \* time slots per shard, e.g. {0, 1}
          MaxGen,     \* a series gets at most this many ids
          MaxFiles,   \* at most this many TSI files per shard (bounds LogToIndexFile)
          MaxLevel,   \* highest TSI level (7 in the code)
          PhysShards, \* shards whose TSI files are rolled and compacted (subset of Shards; bounds the exhaustive runs)
          MaxOps,     \* at most this many effective logical operations (state constraint Bounded); 0 = not counted
          DropMeas,   \* measurements usable in DropSeries / DropMeasurement (subset of Meas \cup {"*"}; "*" = no FROM clause)
          DropPreds,  \* names of the predicates usable in DropSeries (subset of DOMAIN PredByName)
          Dev         \* deviations switched on: "tsiTagEntriesLinger" (recorded finding, see known/C14.json);
                      \* negative controls: "compactDropsTombstones", "reopenKeepsInmem"

VARIABLES pts, everDropped, gen, sfLive, sfDirty, tsi, tagSrc, inmG, inmS, cache, spans, kind, ops
vars == <<pts, everDropped, gen, sfLive, sfDirty, tsi, tagSrc, inmG, inmS, cache, spans, kind, ops>>

-----------------------------------------------------------------------------
(* The fixed vocabulary.                                                     *)
Meas == {"m1", "m2"}
Keys == {"k1", "k2"}
Val(i) == IF i = 0 THEN "" ELSE IF i = 1 THEN "a" ELSE "b"
Vals == {"a", "b"}
MeasOf(s) == IF s < 9 THEN "m1" ELSE "m2"
TagOf(s, k) == IF k = "k1" THEN Val((s % 9) \div 3) ELSE Val(s % 3)

(* Regular expressions are opaque to TLA+: each is given with the set of strings of the *)
(* (finite) domain it matches.  The harness re-checks this table with Go's regexp.      *)
TagRegex == { [re |-> "a",    ms |-> {"a"}],
              [re |-> "^$",   ms |-> {""}],
              [re |-> ".*",   ms |-> {"", "a", "b"}],
              [re |-> ".+",   ms |-> {"a", "b"}],
              [re |-> "^b?$", ms |-> {"", "b"}] }
MeasRegex == { [re |-> "^m1$", ms |-> {"m1"}],
               [re |-> "m",    ms |-> {"m1", "m2"}],
               [re |-> "2",    ms |-> {"m2"}],
               [re |-> "x",    ms |-> {}] }
ReTable(T) == [re \in {r.re : r \in T} |-> (CHOOSE r \in T : r.re = re).ms]
TagReTable == ReTable(TagRegex)      \* constants: evaluated once
MeasReTable == ReTable(MeasRegex)

Atom(k, op, v) == [t |-> "cmp", k |-> k, op |-> op, v |-> v]
NoPred == [t |-> "none"]
AtomPreds == {Atom(k, op, v) : k \in Keys, op \in {"=", "!="}, v \in {"", "a", "b"}}
        \cup {Atom(k, op, r.re) : k \in Keys, op \in {"=~", "!~"}, r \in TagRegex}
CompoundPreds ==
  { [t |-> "and", l |-> Atom("k1", "=", "a"),     r |-> Atom("k2", "!=", "b")],
    [t |-> "and", l |-> Atom("k1", "!=", ""),     r |-> Atom("k2", "=", "")],
    [t |-> "or",  l |-> Atom("k1", "=", "a"),     r |-> Atom("k2", "=~", "^b?$")],
    [t |-> "or",  l |-> Atom("k1", "!~", ".+"),   r |-> Atom("k2", "=", "b")] }
Preds == {NoPred} \cup AtomPreds \cup CompoundPreds

HoldsAtom(p, s) ==
  LET tv == TagOf(s, p.k) IN
  CASE p.op = "="  -> tv = p.v
    [] p.op = "!=" -> tv # p.v
    [] p.op = "=~" -> tv \in TagReTable[p.v]
    [] p.op = "!~" -> tv \notin TagReTable[p.v]
Holds(p, s) ==
  CASE p.t = "none" -> TRUE
    [] p.t = "cmp"  -> HoldsAtom(p, s)
    [] p.t = "and"  -> HoldsAtom(p.l, s) /\ HoldsAtom(p.r, s)
    [] p.t = "or"   -> HoldsAtom(p.l, s) \/ HoldsAtom(p.r, s)

(* predicates that may be used in a DropSeries, by name *)
PredByName ==
  [ n \in {"none", "k1=a", "k1!=a", "k2=", "k2!=", "k1=~^b?$", "k1!~a", "k2=~.+", "k1=aANDk2!=b", "k1!~.+ORk2=b"} |->
    CASE n = "none"  -> NoPred
      [] n = "k1=a"  -> Atom("k1", "=", "a")
      [] n = "k1!=a" -> Atom("k1", "!=", "a")
      [] n = "k2="   -> Atom("k2", "=", "")
      [] n = "k2!="  -> Atom("k2", "!=", "")
      [] n = "k1=~^b?$" -> Atom("k1", "=~", "^b?$")
      [] n = "k1!~a" -> Atom("k1", "!~", "a")
      [] n = "k2=~.+" -> Atom("k2", "=~", ".+")
      [] n = "k1=aANDk2!=b" -> [t |-> "and", l |-> Atom("k1", "=", "a"), r |-> Atom("k2", "!=", "b")]
      [] n = "k1!~.+ORk2=b" -> [t |-> "or",  l |-> Atom("k1", "!~", ".+"), r |-> Atom("k2", "=", "b")] ]

-----------------------------------------------------------------------------
(* Listings as functions of a set of series X (the oracle).                  *)
QMeasurements(X) == {MeasOf(s) : s \in X}
QMeasByRegex(X, re, neg) == {m \in QMeasurements(X) : (m \in MeasReTable[re]) # neg}
QMeasWhere(X, p) == {MeasOf(s) : s \in {x \in X : Holds(p, x)}}
QSeries(X, m, p) == {s \in X : MeasOf(s) = m /\ Holds(p, s)}
QTagKeys(X, m, p) == {k \in Keys : \E s \in QSeries(X, m, p) : TagOf(s, k) # ""}
QTagValues(X, m, k, p) == {TagOf(s, k) : s \in QSeries(X, m, p)} \ {""}

-----------------------------------------------------------------------------
(* Reference and physical views.                                             *)
Live(sh) == {s \in U : pts[sh][s] # {}}
DBLive == UNION {Live(sh) : sh \in Shards}
(* the series the shard's storage still has a key of - what the index is kept in line with.  Stored = Live  *)
(* except for a series whose points were all removed by time-bounded DELETEs none of which covered the span  *)
(* of its TSM entry ("zombie"; InfluxQL: DELETE, unlike DROP SERIES, need not drop a series from the index). *)
Stored(sh) == {s \in U : cache[sh][s] # {} \/ spans[sh][s] # {}}
DBStored == UNION {Stored(sh) : sh \in Shards}
Zombies(sh) == Stored(sh) \ Live(sh)

Id(s) == <<s, gen[s]>>
EmptyLog == [lvl |-> 0, add |-> {}, del |-> {}]

RECURSIVE FoldFiles(_)
FoldFiles(fs) ==   \* fs newest first; Partition.buildSeriesSet walks oldest to newest
  IF fs = <<>> THEN {}
  ELSE (FoldFiles(Tail(fs)) \ Head(fs).del) \cup Head(fs).add

TsiIds(sh) == FoldFiles(tsi[sh])
(* what a tsi1 shard reports: ids alive in its file set whose series-file entry is not tombstoned *)
TsiSeries(sh) == {s \in U : Id(s) \in TsiIds(sh) /\ s \in sfLive}
TsiDB == UNION {TsiSeries(sh) : sh \in Shards}
(* the series whose tag keys / values an unfiltered SHOW TAG KEYS / VALUES (or SHOW MEASUREMENTS WHERE tag = ..) *)
(* of a tsi1 shard is computed from: those with entries in the file set, of measurements the shard still lists   *)
TsiTagSeries(sh) == {x \in tagSrc[sh] : MeasOf(x) \in {MeasOf(y) : y \in TsiSeries(sh)}}
(* what inmem reports: listings from the database-wide index, per-shard series through the bitset *)
InmSeries(sh) == inmS[sh] \cap inmG
InmDB == inmG

-----------------------------------------------------------------------------
Init ==
  /\ pts = [sh \in Shards |-> [s \in U |-> {}]]
  /\ everDropped = {}
  /\ gen = [s \in U |-> 0]
  /\ sfLive = {}
  /\ sfDirty = FALSE
  /\ tsi = [sh \in Shards |-> <<EmptyLog>>]
  /\ tagSrc = [sh \in Shards |-> {}]
  /\ inmG = {}
  /\ inmS = [sh \in Shards |-> {}]
  /\ cache = [sh \in Shards |-> [s \in U |-> {}]]
  /\ spans = [sh \in Shards |-> [s \in U |-> {}]]
  /\ kind = "init"
  /\ ops = 0

LogAdd(fs, ids) == <<[Head(fs) EXCEPT !.add = @ \cup ids, !.del = @ \ ids]>> \o Tail(fs)
LogDel(fs, ids) == <<[Head(fs) EXCEPT !.add = @ \ ids, !.del = @ \cup ids]>> \o Tail(fs)

(* A write of one point of series s at slot t of shard sh (Store.WriteToShard).            *)
(* Shard.validateSeriesAndFields -> Index.CreateSeriesListIfNotExists: series file entry   *)
(* (new id when absent or tombstoned), log file entry unless the shard's set has the id.   *)
Create(sh, s, t) ==
  IF t \in cache[sh][s] THEN UNCHANGED vars      \* one more point at a (series, time) the cache already has: nothing changes
  ELSE
  /\ s \in sfLive \/ gen[s] < MaxGen
  /\ pts' = [pts EXCEPT ![sh][s] = @ \cup {t}]
  /\ gen' = IF s \in sfLive THEN gen ELSE [gen EXCEPT ![s] = @ + 1]
  /\ sfLive' = sfLive \cup {s}
  /\ sfDirty' = (sfDirty \/ s \notin sfLive)
  /\ LET id == <<s, gen'[s]>> IN
     tsi' = IF id \in TsiIds(sh) THEN tsi ELSE [tsi EXCEPT ![sh] = LogAdd(@, {id})]
  /\ tagSrc' = [tagSrc EXCEPT ![sh] = @ \cup {s}]
  /\ inmG' = inmG \cup {s}
  /\ inmS' = [inmS EXCEPT ![sh] = @ \cup {s}]
  /\ cache' = [cache EXCEPT ![sh][s] = @ \cup {t}]
  /\ UNCHANGED spans
  /\ kind' = "logical" /\ ops' = IF MaxOps = 0 THEN 0 ELSE ops + 1
  /\ UNCHANGED everDropped

(* Time ranges of a delete: everything, the whole range of one shard, one slot of one shard *)
Ranges == {<<"all">>} \cup {<<"shard", sh>> : sh \in Shards} \cup {<<"slot", sh, t>> : sh \in Shards, t \in Slots}
RangeSlots(r, sh) ==
  IF r[1] = "all" THEN Slots
  ELSE IF r[2] # sh THEN {}
  ELSE IF r[1] = "shard" THEN Slots ELSE {r[3]}

(* Store.DeleteSeries / DeleteMeasurement -> per shard Engine.DeleteSeriesRange -> deleteSeriesRange:   *)
(* points of the selected series in the range are removed; a selected series without remaining data in  *)
(* the shard is dropped from the shard's index (log-file tombstone / bitset), and from the series file   *)
(* and the database-wide in-memory index when no shard has it any more.                                  *)
(* Tag key / tag value entries of a TSI file set: tagSrc[sh] = the series whose tag keys / values an unfiltered *)
(* listing of the shard is computed from.  As designed (and as the property demands) the entries of a dropped   *)
(* series disappear with it.  Deviation "tsiTagEntriesLinger" (recorded finding, what the code does): a series  *)
(* drop only writes a series tombstone; tag key / tag value entries are tombstoned only together with the whole *)
(* measurement, and entries in older files show again when the measurement is written again.  The model keeps   *)
(* the upper bound of that behaviour - every series ever written to the shard - and the replay accepts any      *)
(* listing between the exact one and this bound (C14_TagListingsBounded), flagged as the recorded finding.      *)
TagSrcAfterDrop(src, goneHere) ==
  IF "tsiTagEntriesLinger" \in Dev THEN src ELSE src \ goneHere

Delete(sel(_), r) ==
  LET matched(sh) == {s \in Stored(sh) : sel(s)}      \* the selection is evaluated on the shard's index
      R(sh) == RangeSlots(r, sh)
      npts == [sh \in Shards |-> [s \in U |-> IF s \in matched(sh) THEN pts[sh][s] \ R(sh) ELSE pts[sh][s]]]
      ncache == [sh \in Shards |-> [s \in U |-> IF s \in matched(sh) THEN cache[sh][s] \ R(sh) ELSE cache[sh][s]]]
      \* a TSM key is removed when the delete covers the whole span of its index entry, otherwise it is tombstoned in part
      nspans == [sh \in Shards |-> [s \in U |-> IF s \in matched(sh) THEN {sp \in spans[sh][s] : ~(sp \subseteq R(sh))} ELSE spans[sh][s]]]
      gone(sh) == {s \in matched(sh) : ncache[sh][s] = {} /\ nspans[sh][s] = {}}
      allGone == UNION {gone(sh) : sh \in Shards}
      stillSomewhere == {s \in U : \E sh \in Shards : ncache[sh][s] # {} \/ nspans[sh][s] # {}}
      sfGone == allGone \ stillSomewhere
  IN IF ncache = cache /\ nspans = spans THEN UNCHANGED vars     \* nothing selected in the range: nothing changes
     ELSE
     /\ pts' = npts /\ cache' = ncache /\ spans' = nspans
     /\ everDropped' = everDropped \cup allGone
     /\ tsi' = [sh \in Shards |-> IF gone(sh) = {} THEN tsi[sh] ELSE LogDel(tsi[sh], {Id(s) : s \in gone(sh)})]
     /\ tagSrc' = [sh \in Shards |-> TagSrcAfterDrop(tagSrc[sh], gone(sh))]
     /\ inmS' = [sh \in Shards |-> inmS[sh] \ gone(sh)]
     /\ inmG' = inmG \ sfGone
     /\ sfLive' = sfLive \ sfGone
     /\ sfDirty' = (sfDirty \/ sfGone # {})
     /\ kind' = "logical" /\ ops' = IF MaxOps = 0 THEN 0 ELSE ops + 1
     /\ UNCHANGED gen

DropSeries(m, pn, r) ==   \* m = "*" : no FROM clause
  Delete(LAMBDA s : (m = "*" \/ MeasOf(s) = m) /\ Holds(PredByName[pn], s), r)
DropMeasurement(m) == Delete(LAMBDA s : MeasOf(s) = m, <<"all">>)

-----------------------------------------------------------------------------
(* Physical actions.                                                          *)

(* The active log file is swapped for a new one and compacted to a level-1 index file      *)
(* (Partition.checkLogFile / compactLogFile; LogFile.CompactTo writes both id sets).       *)
LogToIndexFile(sh) ==
  /\ Len(tsi[sh]) < MaxFiles
  /\ Head(tsi[sh]).add \cup Head(tsi[sh]).del # {}
  /\ tsi' = [tsi EXCEPT ![sh] = <<EmptyLog, [Head(@) EXCEPT !.lvl = 1]>> \o Tail(@)]
  /\ kind' = "physical" /\ UNCHANGED ops
  /\ UNCHANGED <<pts, everDropped, gen, sfLive, sfDirty, tagSrc, inmG, inmS, cache, spans>>

(* FileSet.LastContiguousIndexFilesByLevel: from the oldest end, skip files above the level, *)
(* collect files of the level, stop at the first file below it.                             *)
RECURSIVE RunAtLevel(_, _, _)
RunAtLevel(fs, l, i) ==   \* positions (1 = newest) of the run, scanning from position i down to 1
  IF i = 0 THEN {}
  ELSE IF fs[i].lvl > l THEN RunAtLevel(fs, l, i - 1)
  ELSE IF fs[i].lvl < l THEN {}
  ELSE {i} \cup RunAtLevel(fs, l, i - 1)

(* Partition.compact / compactToLevel: the last two files of the run are merged into one file *)
(* of the next level at the same position (IndexFiles.buildSeriesIDSets).                     *)
Oldest(S) == CHOOSE i \in S : \A j \in S : j <= i
CanCompact(fs, l) == l >= 1 /\ l < MaxLevel /\ Cardinality(RunAtLevel(fs, l, Len(fs))) >= 2
CompactAt(fs, l) ==
  LET run == RunAtLevel(fs, l, Len(fs))
      o == Oldest(run)
      n == Oldest(run \ {o})
      merged == [lvl |-> l + 1,
                 add |-> (fs[o].add \ fs[n].del) \cup fs[n].add,
                 del |-> IF "compactDropsTombstones" \in Dev THEN {}
                         ELSE (fs[o].del \ fs[n].add) \cup fs[n].del]
  IN SubSeq(fs, 1, n - 1) \o <<merged>> \o SubSeq(fs, o + 1, Len(fs))
(* the two files are adjacent (FileSet.MustReplace panics otherwise) *)
RunAdjacent(fs, l) == LET run == RunAtLevel(fs, l, Len(fs)) IN Oldest(run) = Oldest(run \ {Oldest(run)}) + 1

CompactLevel(sh, l) ==
  /\ CanCompact(tsi[sh], l)
  /\ tsi' = [tsi EXCEPT ![sh] = CompactAt(@, l)]
  /\ kind' = "physical" /\ UNCHANGED ops
  /\ UNCHANGED <<pts, everDropped, gen, sfLive, sfDirty, tagSrc, inmG, inmS, cache, spans>>

(* SeriesPartitionCompactor.Compact: the in-memory part of the series index (new ids, tombstones) *)
(* is folded into the on-disk hash maps.                                                          *)
SeriesFileCompact ==
  /\ sfDirty /\ sfDirty' = FALSE
  /\ kind' = "physical" /\ UNCHANGED ops
  /\ UNCHANGED <<pts, everDropped, gen, sfLive, tsi, tagSrc, inmG, inmS, cache, spans>>

(* Engine.WriteSnapshot: cache -> TSM file *)
Snapshot(sh) ==
  /\ \E s \in U : cache[sh][s] # {}
  /\ spans' = [spans EXCEPT ![sh] = [s \in U |-> IF cache[sh][s] # {} THEN @[s] \cup {cache[sh][s]} ELSE @[s]]]
  /\ cache' = [cache EXCEPT ![sh] = [s \in U |-> {}]]
  /\ kind' = "physical" /\ UNCHANGED ops
  /\ UNCHANGED <<pts, everDropped, gen, sfLive, sfDirty, tsi, tagSrc, inmG, inmS>>

(* Store.Close + Open: TSI files and series file are read back; the in-memory index is rebuilt *)
(* from the keys of the TSM files and the WAL (LoadMetadataIndex).                             *)
Reopen ==
  /\ inmG' = IF "reopenKeepsInmem" \in Dev THEN inmG \cup everDropped ELSE DBStored
  /\ inmS' = [sh \in Shards |-> Stored(sh)]
  /\ kind' = "physical" /\ UNCHANGED ops
  /\ UNCHANGED <<pts, everDropped, gen, sfLive, sfDirty, tsi, tagSrc, cache, spans>>

Logical ==
  \/ \E sh \in Shards, s \in U, t \in Slots : Create(sh, s, t)
  \/ \E m \in DropMeas, pn \in DropPreds, r \in Ranges : DropSeries(m, pn, r)
  \/ \E m \in DropMeas \ {"*"} : DropMeasurement(m)
Physical ==
  \/ \E sh \in PhysShards : LogToIndexFile(sh) \/ \E l \in 1..MaxLevel : CompactLevel(sh, l)
  \/ \E sh \in Shards : Snapshot(sh)
  \/ SeriesFileCompact
  \/ Reopen
Next == Logical \/ Physical
Spec == Init /\ [][Next]_vars

-----------------------------------------------------------------------------
TypeOK ==
  /\ pts \in [Shards -> [U -> SUBSET Slots]]
  /\ everDropped \subseteq U
  /\ gen \in [U -> 0..MaxGen]
  /\ sfLive \subseteq U /\ inmG \subseteq U
  /\ inmS \in [Shards -> SUBSET U] /\ tagSrc \in [Shards -> SUBSET U]
  /\ cache \in [Shards -> [U -> SUBSET Slots]] /\ spans \in [Shards -> [U -> SUBSET (SUBSET Slots)]]
  /\ \A sh \in Shards : Len(tsi[sh]) >= 1 /\ tsi[sh][1].lvl = 0
        /\ \A i \in 2..Len(tsi[sh]) : tsi[sh][i].lvl \in 1..MaxLevel
  /\ kind \in {"init", "logical", "physical"} /\ ops \in Nat

(* C14_ListingsExact: what each index type reports is exactly the live series - per shard and for *)
(* the database - hence (Q* being functions of the series set) every listing and predicate query  *)
(* is exact: nothing written missing, nothing dropped lingering, and the two types agree.         *)
C14_ListingsExact ==
  /\ \A sh \in Shards : TsiSeries(sh) = Stored(sh) /\ InmSeries(sh) = Stored(sh)
  /\ TsiDB = DBStored /\ InmDB = DBStored
  /\ "tsiTagEntriesLinger" \notin Dev => \A sh \in Shards : TsiTagSeries(sh) = Stored(sh)
  \* nothing written is missing; what is listed without data is a zombie of a partial delete, which needs
  \* a TSM entry spanning more than the deleted range (never with DROP SERIES / DROP MEASUREMENT)
  /\ \A sh \in Shards : /\ Live(sh) \subseteq Stored(sh)
                        /\ \A s \in Zombies(sh) : cache[sh][s] = {} /\ \A sp \in spans[sh][s] : Cardinality(sp) >= 2
(* the series file agrees with the data: an entry is live iff some shard has the series *)
C14_SeriesFileExact == sfLive = DBStored
(* level runs are contiguous (FileSet.MustReplace would panic otherwise), levels never decrease with age *)
C14_LevelsOrdered ==
  \A sh \in Shards :
    /\ \A i \in 1..(Len(tsi[sh]) - 1) : tsi[sh][i].lvl <= tsi[sh][i + 1].lvl
    /\ \A l \in 1..MaxLevel : CanCompact(tsi[sh], l) => RunAdjacent(tsi[sh], l)

(* with the recorded deviation the unfiltered tag listings of tsi1 are those of a superset of the live series, *)
(* never of a series that was not written to the shard, and of nothing once the measurement is gone           *)
C14_TagListingsBounded ==
  \A sh \in Shards : /\ Stored(sh) \subseteq TsiTagSeries(sh)
                      /\ QMeasurements(TsiTagSeries(sh)) = QMeasurements(Stored(sh))

Reported == <<[sh \in Shards |-> TsiSeries(sh)], [sh \in Shards |-> TsiTagSeries(sh)], [sh \in Shards |-> InmSeries(sh)], InmDB>>
(* C14_PhysicalStutter: a physical action changes no answer of either index type *)
C14_PhysicalStutter == [][kind' = "physical" => Reported' = Reported]_vars

(* reachability probes (must be violated): non-vacuity of the interesting situations *)
Probe_DroppedInOneShardOnly == ~(\E s \in U : s \in everDropped /\ s \in DBLive /\ \E sh \in Shards : s \notin Live(sh) /\ Id(s) \in UNION {f.del : f \in {tsi[sh][i] : i \in 1..Len(tsi[sh])}})
Probe_Zombie == ~(\E sh \in Shards : Zombies(sh) # {})
Probe_Recreated == ~(\E s \in U : gen[s] >= 2 /\ s \in DBLive)
Probe_Level3 == ~(\E sh \in Shards : \E i \in 1..Len(tsi[sh]) : tsi[sh][i].lvl >= 3)
Probe_TombstoneInIndexFile == ~(\E sh \in Shards : \E i \in 2..Len(tsi[sh]) : tsi[sh][i].del # {} /\ tsi[sh][i].lvl >= 2)

Bounded == (MaxOps = 0 \/ ops <= MaxOps) /\ \A sh \in Shards : Len(tsi[sh]) <= MaxFiles
=============================================================================
