----------------------------- MODULE IndexGen -----------------------------
(* Behaviour generator for the replay on two real tsdb.Store instances (index "inmem" and   *)
(* "tsi1" side by side, harness/tsdb/zz_verif_index_test.go).                               *)
(* Random walk (tlc -simulate): the kind of step is drawn from a weighted bag, then its      *)
(* arguments uniformly from the instances that have an effect in the current state (a small  *)
(* share of drops is drawn from all instances, so that selections matching nothing occur).   *)
(* A "Compact" step is CompactLevel taken until no level of the shard can be compacted (the  *)
(* real Partition.compact cascades in the same way).                                         *)
(* Every step carries the action, its arguments, the model's live series per shard, the TSI  *)
(* file levels per shard and the model's answer to EVERY query of the vocabulary (per shard  *)
(* and for the database) in the state after the step.  The answers are computed when the     *)
(* behaviour is printed (from the pts snapshot kept in hist), not for every candidate step.  *)
EXTENDS Index, Json

CONSTANTS GenLen,
          Profile    \* "mixed" | "churn" (drops, re-creations and restarts dominate: for the replay with automatic compactions)
VARIABLE hist
gvars == <<vars, hist>>

-----------------------------------------------------------------------------
PredName(p) ==
  CASE p.t = "none" -> "none"
    [] p.t = "cmp"  -> p.k \o p.op \o p.v
    [] p.t = "and"  -> p.l.k \o p.l.op \o p.l.v \o "AND" \o p.r.k \o p.r.op \o p.r.v
    [] p.t = "or"   -> p.l.k \o p.l.op \o p.l.v \o "OR" \o p.r.k \o p.r.op \o p.r.v
PredNames == {PredName(p) : p \in Preds}
PredTable == [n \in PredNames |-> CHOOSE p \in Preds : PredName(p) = n]    \* constant: evaluated once
PredOf(n) == PredTable[n]
(* predicates used for SHOW TAG KEYS / TAG VALUES ... WHERE and SHOW MEASUREMENTS WHERE *)
TagPredNames == {"none", "k1=a", "k2!=b", "k1=~^b?$", "k2!~a", "k1=aANDk2!=b"}
(* SHOW MEASUREMENTS WHERE tag ...: only positive predicates that cannot hold for a missing tag *)
(* (for the others InfluxQL's per-measurement reading of the clause is not a per-series one)     *)
MeasWherePredNames == {"k1=a", "k2=b", "k1=~a", "k2=~.+"}

(* X = the live series of the scope; E = the series the scope's unfiltered tsi1 tag listings may draw from *)
(* (= X without the recorded deviation "tsiTagEntriesLinger")                                              *)
AnsOf(X, E0) ==
  LET E == {x \in E0 : MeasOf(x) \in QMeasurements(X)} IN
  [ n         |-> Cardinality(X),
    tagKeysB  |-> [m \in Meas |-> QTagKeys(E, m, NoPred)],
    tagValuesB |-> [m \in Meas |-> [k \in Keys |-> QTagValues(E, m, k, NoPred)]],
    measWhereB |-> [pn \in MeasWherePredNames |-> QMeasWhere(E, PredOf(pn))],
    meas      |-> QMeasurements(X),
    measRe    |-> {[re |-> r.re, neg |-> ng, r |-> QMeasByRegex(X, r.re, ng)] : r \in MeasRegex, ng \in BOOLEAN},
    measWhere |-> [pn \in MeasWherePredNames |-> QMeasWhere(X, PredOf(pn))],
    series    |-> [m \in Meas |-> [pn \in PredNames |-> QSeries(X, m, PredOf(pn))]],
    tagKeys   |-> [m \in Meas |-> [pn \in TagPredNames |-> QTagKeys(X, m, PredOf(pn))]],
    tagValues |-> [m \in Meas |-> [k \in Keys |-> [pn \in TagPredNames |-> QTagValues(X, m, k, PredOf(pn))]]] ]

LiveOf(p, sh) == {s \in U : p[sh][s] # {}}
ObsOf(p, src) ==
  [ db |-> AnsOf(UNION {LiveOf(p, sh) : sh \in Shards}, UNION {src[sh] : sh \in Shards}),
    sh |-> {[sh |-> sh, a |-> AnsOf(LiveOf(p, sh), src[sh])] : sh \in Shards} ]

Levels(fs) == [i \in 1..Len(fs) |-> fs[i].lvl]

Log(a, x) ==
  hist' = Append(hist, [a |-> a, x |-> x, pts |-> pts', src |-> tagSrc',
                        files |-> {[sh |-> sh, lv |-> Levels(tsi'[sh])] : sh \in Shards}])

-----------------------------------------------------------------------------
RECURSIVE CompactFix(_)
CompactFix(fs) ==
  IF \E l \in 1..MaxLevel : CanCompact(fs, l)
  THEN CompactFix(CompactAt(fs, CHOOSE l \in 1..MaxLevel : CanCompact(fs, l) /\ \A k \in 1..MaxLevel : CanCompact(fs, k) => l <= k))
  ELSE fs

CompactAll(sh) ==
  /\ tsi' = [tsi EXCEPT ![sh] = CompactFix(@)]
  /\ kind' = "physical" /\ UNCHANGED ops
  /\ UNCHANGED <<pts, everDropped, gen, sfLive, sfDirty, tagSrc, inmG, inmS, cache, spans>>

InRange(r, sh, s) == pts[sh][s] \cap RangeSlots(r, sh) # {}
DropHits(m, pn, r) == \E sh \in Shards, s \in U : (m = "*" \/ MeasOf(s) = m) /\ Holds(PredByName[pn], s) /\ InRange(r, sh, s)

ArgsCreate   == {<<sh, s, t>> \in Shards \X U \X Slots : t \notin pts[sh][s]}
(* A delete that would leave a series without points but with a TSM key (a slot-wise DELETE of a series whose    *)
(* TSM entry spans both slots) is not generated: InfluxQL leaves open whether such a series stays listed, the code *)
(* keeps it until the TSM file is compacted in the background (wall clock) and, for inmem, the next restart.       *)
MakesZombie(m, pn, r) ==
  \E sh \in Shards : \E s \in Stored(sh) :
     /\ (m = "*" \/ MeasOf(s) = m) /\ Holds(PredByName[pn], s)
     /\ pts[sh][s] \ RangeSlots(r, sh) = {}
     /\ \E sp \in spans[sh][s] : ~(sp \subseteq RangeSlots(r, sh))
ArgsRecreate == {c \in ArgsCreate : c[2] \in everDropped /\ c[2] \notin Live(c[1])}
ArgsDropAll  == {d \in DropMeas \X DropPreds \X Ranges : ~MakesZombie(d[1], d[2], d[3])}
ArgsDrop     == {d \in ArgsDropAll : DropHits(d[1], d[2], d[3])}
ArgsDropM    == {m \in Meas : \E s \in DBLive : MeasOf(s) = m}
ArgsLog      == {sh \in PhysShards : Head(tsi[sh]).add \cup Head(tsi[sh]).del # {}}
ArgsCompact  == {sh \in PhysShards : \E l \in 1..MaxLevel : CanCompact(tsi[sh], l)}
ArgsSnap     == {sh \in Shards : \E s \in U : cache[sh][s] # {}}

Bag == IF Profile = "churn"
       THEN << "create", "create", "create", "create", "recreate", "recreate", "recreate",
               "drop", "drop", "drop", "drop", "dropm", "log", "compact", "sfc", "snap", "reopen", "reopen", "reopen" >>
       ELSE << "create", "create", "create", "create", "create", "recreate", "recreate",
               "drop", "drop", "drop", "dropany", "dropm",
               "log", "log", "log", "log", "compact", "compact", "compact", "compact", "sfc", "snap", "snap", "reopen", "reopen" >>

Pick(S) == RandomElement(S)

(* RandomElement is drawn once per step: TLC re-evaluates a LET body or an operator argument at every use, *)
(* a bound variable of \E is evaluated once.                                                               *)
DoCreate(lbl, S) == \E c \in {Pick(S)} : Create(c[1], c[2], c[3]) /\ Log(lbl, [sh |-> c[1], s |-> c[2], t |-> c[3]])
DoDrop(S) == \E d \in {Pick(S)} : DropSeries(d[1], d[2], d[3]) /\ Log("DropSeries", [m |-> d[1], pn |-> d[2], p |-> PredByName[d[2]], r |-> d[3]])
Fallback == IF ArgsCreate # {} THEN DoCreate("Create", ArgsCreate) ELSE DoDrop(ArgsDropAll)

GStep(ty) ==
  CASE ty = "create"   -> Fallback
    [] ty = "recreate" -> IF ArgsRecreate # {} THEN DoCreate("Recreate", ArgsRecreate) ELSE Fallback
    [] ty = "drop"     -> IF ArgsDrop # {} THEN DoDrop(ArgsDrop) ELSE Fallback
    [] ty = "dropany"  -> DoDrop(ArgsDropAll)
    [] ty = "dropm"    -> IF ArgsDropM # {} THEN (\E m \in {Pick(ArgsDropM)} : DropMeasurement(m) /\ Log("DropMeasurement", [m |-> m])) ELSE Fallback
    [] ty = "log"      -> IF ArgsLog # {} THEN (\E sh \in {Pick(ArgsLog)} : LogToIndexFile(sh) /\ Log("LogToIndexFile", [sh |-> sh])) ELSE Fallback
    [] ty = "compact"  -> IF ArgsCompact # {} THEN (\E sh \in {Pick(ArgsCompact)} : CompactAll(sh) /\ Log("Compact", [sh |-> sh])) ELSE Fallback
    [] ty = "sfc"      -> IF sfDirty THEN SeriesFileCompact /\ Log("SeriesFileCompact", [z |-> 0]) ELSE Fallback
    [] ty = "snap"     -> IF ArgsSnap # {} THEN (\E sh \in {Pick(ArgsSnap)} : Snapshot(sh) /\ Log("Snapshot", [sh |-> sh])) ELSE Fallback
    [] ty = "reopen"   -> Reopen /\ Log("Reopen", [z |-> 0])

GNext == Len(hist) < GenLen /\ \E ty \in {Bag[RandomElement(1..Len(Bag))]} : GStep(ty)

GInit == Init /\ hist = <<>>
GSpec == GInit /\ [][GNext]_gvars

Out == [ u |-> U,
         preds |-> PredTable, tagRegex |-> TagRegex, measRegex |-> MeasRegex,
         series |-> {[s |-> s, m |-> MeasOf(s), k1 |-> TagOf(s, "k1"), k2 |-> TagOf(s, "k2")] : s \in U},
         steps |-> [i \in 1..Len(hist) |->
                      [a |-> hist[i].a, x |-> hist[i].x, files |-> hist[i].files,
                       live |-> {[sh |-> sh, ss |-> LiveOf(hist[i].pts, sh)] : sh \in Shards},
                       obs |-> ObsOf(hist[i].pts, hist[i].src)]] ]

Emit == (Len(hist) = GenLen) => PrintT(<<"BEHAVIOUR", ToJson(Out)>>)

=============================================================================
