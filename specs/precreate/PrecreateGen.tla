--------------------------- MODULE PrecreateGen ---------------------------
(* Behaviour generator for the replay on the real meta.Client / meta.Data            *)
(* (harness/meta/zz_verif_precreate_test.go).  One step = one API call:              *)
(*   Write(t)       Client.CreateShardGroup(db, rp, t)        (lazy creation)        *)
(*   Precreate(adv) Client.PrecreateShardGroups(now, now+adv)                        *)
(*   Truncate(t)    Client.TruncateShardGroups(t)                                    *)
(*   Alter(dd)      Client.UpdateRetentionPolicy(ShardGroupDuration = dd)            *)
(*   Delete(id)     Client.DeleteShardGroup(id)                                      *)
(*   Prune          two weeks pass, Client.PruneShardGroups()                        *)
(*   Tick(n)        the clock value handed to the next Precreate                     *)
(* Every step carries the model's group list after the step (slice order), whether   *)
(* a group was created, and the ranges serving the probe instants.                   *)
(*  Sim = TRUE: random walk, the step kind is drawn from a weighted bag first.       *)
(*  Sim = FALSE: BFS with hist in the state: all sequences of length GenLen.         *)
(*  Script # "none": the behaviour starts with a fixed step list (leads into a       *)
(*  corner of the state space), generation continues after it.                       *)
EXTENDS Precreate, Json

CONSTANTS GenLen, Sim, Probes, Script
VARIABLES hist, obs
gvars == <<vars, hist, obs>>

S(a, x) == [a |-> a, x |-> x]
ScriptSeq ==
  CASE Script = "none" -> <<>>
    \* the newest group ends 1ns before a whole multiple of the duration: [0,2h) truncated at 2h-1ns, a group for
    \* the instant 2h-1ns, the truncated one deleted, [0, 2h-1ns) created in the gap, the 1ns group deleted and pruned
    [] Script = "endMinus1ns" -> <<S("Write", 0), S("Truncate", 7), S("Write", 7), S("Delete", 1), S("Write", 0),
                                   S("Delete", 2), S("Prune", 0)>>
    \* newest group truncated, then the duration is altered
    [] Script = "truncAlter" -> <<S("Write", 0), S("Truncate", 7), S("Alter", 12)>>
    \* a pre-created group that is deleted again
    [] Script = "preDeleted" -> <<S("Write", 0), S("Precreate", 9), S("Delete", 2)>>

Dyn(X) == {x \in X : Len(hist) >= 0}     \* state-dependent (TLC caches constant-level RandomElement)
Bag == <<"Write", "Write", "Write", "Precreate", "Precreate", "Precreate", "Precreate", "Truncate", "Alter",
         "Delete", "Tick", "Tick", "Tick", "Prune">>
Pick(X) == IF Sim THEN {RandomElement(Dyn(X))} ELSE X

\* the clock advances in small steps (the three next clock values), otherwise it runs past every group at once
NextNows == LET later == {m \in NowTimes : m > now} IN
            {m \in later : Cardinality({x \in later : x < m}) < 3}
\* random walks: two out of three pre-creation calls use an advance period that puts end(newest) inside the window
HitAdvs == {a \in Advs : InWindow(gs, now, now + a)}
PreAdvs == IF Sim /\ HitAdvs # {} /\ RandomElement(Dyn({0, 1, 2})) # 0 THEN HitAdvs ELSE Advs

ArgSet(k) ==
  CASE k = "Write" -> WTimes
    [] k = "Precreate" -> PreAdvs
    [] k = "Truncate" -> TTimes
    [] k = "Alter" -> Durs \ {d}
    [] k = "Delete" -> 1..(nid - 1)
    [] k = "Prune" -> {0}
    [] k = "Tick" -> NextNows

ActX(k, x) ==
  /\ CASE k = "Write" -> Write(x)
       [] k = "Precreate" -> Precreate(x)
       [] k = "Truncate" -> Truncate(x)
       [] k = "Alter" -> Alter(x)
       [] k = "Delete" -> Delete(x)
       [] k = "Prune" -> Prune
       [] k = "Tick" -> Tick(x)
  /\ hist' = Append(hist, S(k, x))
  /\ obs' = Append(obs, [gs |-> gs', d |-> d', now |-> now', created |-> last'.created, cut |-> last'.cut,
                         probes |-> {[t |-> t, r |-> Range(gs', t)] : t \in Probes}])

EnabledKind(k) ==
  CASE k = "Alter" -> Durs \ {d} # {}
    [] k = "Delete" -> nid > 1
    [] k = "Tick" -> \E m \in NowTimes : m > now
    [] k = "Write" -> nid <= MaxG \/ \E t \in WTimes : ServeIdx(gs, t) # 0
    [] k = "Precreate" -> nid <= MaxG
    [] k = "Prune" -> WithPrune /\ \E i \in 1..Len(gs) : gs[i].del
    [] OTHER -> TRUE
Kinds == {Bag[i] : i \in 1..Len(Bag)}
EBag == SelectSeq(Bag, EnabledKind)

GNext ==
  /\ Len(hist) < GenLen
  /\ nid <= MaxG + 1
  /\ IF Len(hist) < Len(ScriptSeq)
     THEN ActX(ScriptSeq[Len(hist) + 1].a, ScriptSeq[Len(hist) + 1].x)
     ELSE \E k \in (IF Sim THEN {EBag[RandomElement(Dyn(1..Len(EBag)))]} ELSE {kk \in Kinds : EnabledKind(kk)}) :
            \E x \in Pick(ArgSet(k)) : ActX(k, x)

GInit == Init /\ hist = <<>> /\ obs = <<>>
GSpec == GInit /\ [][GNext]_gvars

Beh == [i \in 1..Len(hist) |-> [a |-> hist[i].a, x |-> hist[i].x, gs |-> obs[i].gs, d |-> obs[i].d, now |-> obs[i].now,
                                 cut |-> obs[i].cut, created |-> obs[i].created, probes |-> obs[i].probes]]
Emit == (Len(hist) = GenLen) => PrintT(<<"BEHAVIOUR", ToJson(Beh)>>)
=============================================================================
