--------------------------- MODULE PrecreateGen ---------------------------
(* Behaviour generator for the replay on the real meta.Client / meta.Data            *)
(* (harness/meta/zz_verif_precreate_test.go).  One step = one API call:              *)
(*   Write(t)       Client.CreateShardGroup(db, rp, t)        (lazy creation)        *)
(*   Precreate(adv) Client.PrecreateShardGroups(now, now+adv)                        *)
(*   Truncate(t)    Client.TruncateShardGroups(t)                                    *)
(*   Alter(dd)      Client.UpdateRetentionPolicy(ShardGroupDuration = dd)            *)
(*   Delete(id)     Client.DeleteShardGroup(id)                                      *)
(*   Tick(n)        the clock value handed to the next Precreate                     *)
(* Every step carries the model's group list after the step (slice order), whether   *)
(* a group was created, and the ranges serving the probe instants.                   *)
(*  Sim = TRUE: random walk, the step kind is drawn from a weighted bag first.       *)
(*  Sim = FALSE: BFS with hist in the state: all sequences of length GenLen.         *)
EXTENDS Precreate, Json

CONSTANTS GenLen, Sim, Probes
VARIABLE hist
gvars == <<vars, hist>>

Dyn(S) == {x \in S : Len(hist) >= 0}     \* state-dependent (TLC caches constant-level RandomElement)
Bag == <<"Write", "Write", "Write", "Precreate", "Precreate", "Precreate", "Precreate", "Truncate", "Alter",
         "Delete", "Tick", "Tick", "Tick">>
Pick(S) == IF Sim THEN {RandomElement(Dyn(S))} ELSE S

\* the clock advances in small steps (the three next clock values), otherwise it runs past every group at once
NextNows == LET later == {m \in NowTimes : m > now} IN
            {m \in later : Cardinality({x \in later : x < m}) < 3}
\* random walks: two out of three pre-creation calls use an advance period that puts end(newest) inside the window
HitAdvs == {a \in Advs : InWindow(gs, now, now + a)}
PreAdvs == IF Sim /\ HitAdvs # {} /\ RandomElement(Dyn({0, 1, 2})) # 0 THEN HitAdvs ELSE Advs

Act(k) ==
  CASE k = "Write" -> \E t \in Pick(WTimes) : Write(t) /\ hist' = Append(hist, [a |-> k, x |-> t])
    [] k = "Precreate" -> \E adv \in Pick(PreAdvs) : Precreate(adv) /\ hist' = Append(hist, [a |-> k, x |-> adv])
    [] k = "Truncate" -> \E t \in Pick(TTimes) : Truncate(t) /\ hist' = Append(hist, [a |-> k, x |-> t])
    [] k = "Alter" -> \E dd \in Pick(Durs \ {d}) : Alter(dd) /\ hist' = Append(hist, [a |-> k, x |-> dd])
    [] k = "Delete" -> \E id \in Pick(1..(nid - 1)) : Delete(id) /\ hist' = Append(hist, [a |-> k, x |-> id])
    [] k = "Tick" -> \E n \in Pick(NextNows) : Tick(n) /\ hist' = Append(hist, [a |-> k, x |-> n])

EnabledKind(k) ==
  CASE k = "Alter" -> Durs \ {d} # {}
    [] k = "Delete" -> nid > 1
    [] k = "Tick" -> \E m \in NowTimes : m > now
    [] k = "Write" -> nid <= MaxG \/ \E t \in WTimes : ServeIdx(gs, t) # 0
    [] k = "Precreate" -> nid <= MaxG
    [] OTHER -> TRUE
Kinds == {Bag[i] : i \in 1..Len(Bag)}
EBag == SelectSeq(Bag, EnabledKind)

GNext ==
  /\ Len(hist) < GenLen
  /\ nid <= MaxG + 1
  /\ \E k \in (IF Sim THEN {EBag[RandomElement(Dyn(1..Len(EBag)))]} ELSE {kk \in Kinds : EnabledKind(kk)}) : Act(k)

\* the record printed for step i needs the state after the step: kept in a parallel history
VARIABLE obs
GInit == Init /\ hist = <<>> /\ obs = <<>>
GNextO == GNext /\ obs' = Append(obs, [gs |-> gs', d |-> d', now |-> now', created |-> last'.created, cut |-> last'.cut,
                                       probes |-> {[t |-> t, r |-> Range(gs', t)] : t \in Probes}])
GSpec == GInit /\ [][GNextO]_<<gvars, obs>>

Beh == [i \in 1..Len(hist) |-> [a |-> hist[i].a, x |-> hist[i].x, gs |-> obs[i].gs, d |-> obs[i].d, now |-> obs[i].now,
                                 cut |-> obs[i].cut, created |-> obs[i].created, probes |-> obs[i].probes]]
Emit == (Len(hist) = GenLen) => PrintT(<<"BEHAVIOUR", ToJson(Beh)>>)
=============================================================================
