----------------------------- MODULE Precreate -----------------------------
(* X04 - shard-group PRE-CREATION (specification growth, not a listed property).      *)
(*                                                                                    *)
(* Code: services/precreator/service.go  (every check-interval:                       *)
(*          MetaClient.PrecreateShardGroups(now, now+advance))                        *)
(*       services/meta/client.go  Client.PrecreateShardGroups / CreateShardGroup      *)
(*       services/meta/data.go    Data.CreateShardGroup / TruncateShardGroups /       *)
(*                                DeleteShardGroup / UpdateRetentionPolicy,           *)
(*                                RetentionPolicyInfo.ShardGroupByTimestamp,          *)
(*                                ShardGroupInfos.Less (list order)                   *)
(*                                                                                    *)
(* One retention policy.  gs is the policy's ShardGroups slice IN THE ORDER OF THE    *)
(* REAL SLICE (PrecreateShardGroups looks at the LAST element only): every creation   *)
(* appends and runs sort.Sort with Less = (effective end, start); for <= 12 elements  *)
(* sort.Sort is an insertion sort, i.e. stable; truncation changes keys WITHOUT       *)
(* re-sorting.                                                                        *)
(*                                                                                    *)
(* Time: an instant is an integer k; 4 ticks = 1 hour; k = 4q+r stands for            *)
(*   r=0: q h     r=1: q h + 1ns     r=2: q h + 2ns     r=3: (q+1) h - 1ns            *)
(* (order preserving; "+1ns" is k+1 for r in {0,1,3}).  Group boundaries are whole    *)
(* hours or truncation instants, therefore truncation instants avoid r=2.  Shard      *)
(* group durations are multiples of 4 ticks.  Hour 0 is aligned for every duration.   *)
(*                                                                                    *)
(* PROPERTIES                                                                         *)
(*  X04a  pre-creation is invisible to routing.  What the algebra can guarantee (and  *)
(*        what is checked): a Precreate step has exactly the effect of a point        *)
(*        arriving at the FIRST instant after the newest group (lazy creation at      *)
(*        write time): the twin history tw, in which every Precreate is replaced by   *)
(*        that lazy write, has the same group list after every step (ranges, ids,     *)
(*        order, truncation/deletion marks) => every instant is served by the same    *)
(*        group.  (Dropping the Precreate steps altogether is NOT equivalent once a   *)
(*        later Truncate / altered duration falls between pre-creation and the first  *)
(*        write, exactly as for an early write: not claimed.)                         *)
(*        X04a_Successor: the pre-created group serves the first instant after the    *)
(*        newest group (no unserved instant in between).  Both fail for the code as   *)
(*        found (FixSucc = FALSE: successor instant end+1ns) when the newest group    *)
(*        ends 1ns before a whole multiple of the duration - reachable through Prune. *)
(*  X04b  never overlaps a live group's serving range (X04b_NoOverlap); never creates *)
(*        when the newest group is deleted or ends at/after the cutoff or at/before   *)
(*        now (X04b_OnlySuccessorOfLiveNewest); never resurrects (X04b_NoResurrect);  *)
(*        idempotent: repeating the call with the same arguments creates nothing      *)
(*        unless the new newest group still ends inside the window, and k calls       *)
(*        create at most k groups (one per call, same invariant); a call is a no-op   *)
(*        once the newest group ends at/after the cutoff (X04b_Fixpoint).             *)
(*  X04c  the successor is created iff  now < end(newest) < cutoff  (both strict;     *)
(*        end == cutoff: no; end == cutoff - 1ns: yes; end == now: no;                *)
(*        end == now + 1ns: yes) and the successor instant is not served yet.         *)
(*  The named operators below are checked as invariants over the step record `last`.  *)
EXTENDS Integers, Sequences, FiniteSets, TLC

CONSTANTS
  WTimes,     \* instants of points (lazy creation)
  TTimes,     \* truncation instants (r # 2)
  NowTimes,   \* values of the clock
  Advs,       \* advance periods (ticks)
  Durs,       \* shard group durations (ticks, multiples of 4)
  D0,         \* initial duration
  MaxG,       \* bound: groups per history
  WithPrune,  \* TRUE: histories contain Prune steps
  FixSucc     \* TRUE: the successor is created for the instant end(newest) (repaired code);
              \* FALSE: for end(newest)+1ns (code as found)

ASSUME /\ \A t \in TTimes : t % 4 # 2
       /\ \A dd \in Durs \cup {D0} : dd % 4 = 0 /\ dd > 0

VARIABLES gs, tw, d, now, nid, last
vars == <<gs, tw, d, now, nid, last>>

None == -1
NoStep == [a |-> "init", created |-> FALSE, before |-> <<>>, now |-> 0, cut |-> 0, twcreated |-> FALSE]

EffEnd(g) == IF g.tr # None THEN g.tr ELSE g.e
Live(g) == ~g.del
Serves(g, t) == g.s <= t /\ t < g.e /\ Live(g) /\ (g.tr = None \/ t < g.tr)
\* RetentionPolicyInfo.ShardGroupByTimestamp: first match in slice order (0 = none)
ServeIdx(L, t) == IF \E i \in 1..Len(L) : Serves(L[i], t)
                  THEN CHOOSE i \in 1..Len(L) : Serves(L[i], t) /\ \A j \in 1..(i-1) : ~Serves(L[j], t)
                  ELSE 0
Range(L, t) == LET i == ServeIdx(L, t) IN IF i = 0 THEN <<None, None>> ELSE <<L[i].s, L[i].e>>

SetMax(S) == CHOOSE x \in S : \A y \in S : y <= x
SetMin(S) == CHOOSE x \in S : \A y \in S : x <= y

\* ShardGroupInfos.Less
Less(a, b) == IF EffEnd(a) = EffEnd(b) THEN a.s < b.s ELSE EffEnd(a) < EffEnd(b)
\* insertion of x into p as sort.insertionSort does: x moves left while Less(x, left neighbour)
Ins(p, x) ==
  LET stop == {i \in 1..Len(p) : ~Less(x, p[i])}
      k == IF stop = {} THEN 0 ELSE SetMax(stop) IN
  SubSeq(p, 1, k) \o <<x>> \o SubSeq(p, k + 1, Len(p))
RECURSIVE InsSort(_)
InsSort(s) == IF Len(s) <= 1 THEN s ELSE Ins(InsSort(SubSeq(s, 1, Len(s) - 1)), s[Len(s)])

\* Data.CreateShardGroup (no-op when the instant is served; clipped to the free gap around t)
Create(L, t, dd, id) ==
  IF ServeIdx(L, t) # 0 THEN L
  ELSE LET s0 == t - (t % dd)
           e0 == s0 + dd
           live == {L[i] : i \in {j \in 1..Len(L) : Live(L[j])}}
           st == SetMax({s0} \cup {EffEnd(g) : g \in {h \in live : EffEnd(h) <= t /\ EffEnd(h) > s0}})
           en == SetMin({e0} \cup {g.s : g \in {h \in live : h.s > t /\ h.s < e0}})
       IN InsSort(Append(L, [id |-> id, s |-> st, e |-> en, tr |-> None, del |-> FALSE]))

TruncG(g, t) ==
  IF t >= g.e \/ g.del \/ (g.tr # None /\ g.tr < t) THEN g
  ELSE [g EXCEPT !.tr = IF t <= g.s THEN g.s ELSE t]
Trunc(L, t) == [i \in 1..Len(L) |-> TruncG(L[i], t)]

Del(L, id) == [i \in 1..Len(L) |-> IF L[i].id = id THEN [L[i] EXCEPT !.del = TRUE] ELSE L[i]]

\* Client.PrecreateShardGroups for this policy
InWindow(L, n, c) == Len(L) > 0 /\ Live(L[Len(L)]) /\ L[Len(L)].e < c /\ L[Len(L)].e > n
SuccTs(L) == IF FixSucc THEN L[Len(L)].e ELSE L[Len(L)].e + 1
Pre(L, n, c, dd, id) == IF InWindow(L, n, c) THEN Create(L, SuccTs(L), dd, id) ELSE L
\* the twin: a point arrives at the first instant after the newest group
PreTwin(L, n, c, dd, id) == IF InWindow(L, n, c) THEN Create(L, L[Len(L)].e, dd, id) ELSE L

Step(a, g2, t2, n, c) ==
  /\ gs' = g2 /\ tw' = t2
  /\ nid' = IF Len(g2) > Len(gs) \/ Len(t2) > Len(tw) THEN nid + 1 ELSE nid
  /\ last' = [a |-> a, created |-> Len(g2) > Len(gs), before |-> gs, now |-> n, cut |-> c,
              twcreated |-> Len(t2) > Len(tw)]

Write(t)    == Step("Write", Create(gs, t, d, nid), Create(tw, t, d, nid), now, 0) /\ UNCHANGED <<d, now>>
Precreate(adv) == Step("Precreate", Pre(gs, now, now + adv, d, nid), PreTwin(tw, now, now + adv, d, nid), now, now + adv)
                  /\ UNCHANGED <<d, now>>
Truncate(t) == Step("Truncate", Trunc(gs, t), Trunc(tw, t), now, 0) /\ UNCHANGED <<d, now>>
Alter(dd)   == dd # d /\ d' = dd /\ Step("Alter", gs, tw, now, 0) /\ UNCHANGED now
Delete(id)  == Step("Delete", Del(gs, id), Del(tw, id), now, 0) /\ UNCHANGED <<d, now>>
\* "two weeks pass, then PruneShardGroups": every deleted group leaves the slice
Prune       == WithPrune /\ Step("Prune", SelectSeq(gs, Live), SelectSeq(tw, Live), now, 0) /\ UNCHANGED <<d, now>>
Tick(n)     == n > now /\ now' = n /\ Step("Tick", gs, tw, n, 0) /\ UNCHANGED d

Init == gs = <<>> /\ tw = <<>> /\ d = D0 /\ now \in {SetMin(NowTimes)} /\ nid = 1 /\ last = NoStep

Next ==
  \/ \E t \in WTimes : Write(t)
  \/ \E adv \in Advs : Precreate(adv)
  \/ \E t \in TTimes : Truncate(t)
  \/ \E dd \in Durs : Alter(dd)
  \/ \E id \in 1..(nid - 1) : Delete(id)
  \/ \E n \in NowTimes : Tick(n)
  \/ Prune

Spec == Init /\ [][Next]_vars
Bounded == nid <= MaxG + 1

----------------------------------------------------------------------------
TypeOK ==
  /\ \A i \in 1..Len(gs) : gs[i].s < gs[i].e /\ (gs[i].tr = None \/ (gs[i].s <= gs[i].tr /\ gs[i].tr < gs[i].e))
  /\ Cardinality({gs[i].id : i \in 1..Len(gs)}) = Len(gs)

\* X04a
X04a_TwinEqual == gs = tw
NewGroup == LET ids == {last.before[i].id : i \in 1..Len(last.before)} IN
            CHOOSE i \in 1..Len(gs) : gs[i].id \notin ids
X04a_Successor ==
  (last.a = "Precreate" /\ last.created) =>
     LET e == last.before[Len(last.before)].e IN Serves(gs[NewGroup], e)

\* X04b
X04b_NoOverlap ==
  \A i, j \in 1..Len(gs) : (i # j /\ Live(gs[i]) /\ Live(gs[j])) =>
     ~(SetMax({gs[i].s, gs[j].s}) < SetMin({EffEnd(gs[i]), EffEnd(gs[j])}))
X04b_NoResurrect ==
  \A i \in 1..Len(last.before) : last.before[i].del =>
     \A j \in 1..Len(gs) : gs[j].id = last.before[i].id => gs[j].del
X04b_OnlySuccessorOfLiveNewest ==
  (last.a = "Precreate" /\ last.created) =>
     LET b == last.before IN
     /\ Len(b) > 0 /\ Live(b[Len(b)])
     /\ Len(gs) = Len(b) + 1                                   \* one per call
     /\ \A i \in 1..Len(b) : \E j \in 1..Len(gs) : gs[j] = b[i]  \* nothing else touched
X04b_Fixpoint ==      \* newest group ends at/after the cutoff => the call changes nothing
  (last.a = "Precreate" /\ Len(last.before) > 0 /\ last.before[Len(last.before)].e >= last.cut) => gs = last.before
PrecreateUnchangedByOthers ==
  (last.a = "Precreate" /\ ~last.created) => gs = last.before

\* X04c: the window, both boundaries strict
X04c_Window ==
  (last.a = "Precreate" /\ Len(last.before) > 0) =>
     LET b == last.before
         e == b[Len(b)].e IN
     /\ last.created => (last.now < e /\ e < last.cut)
     /\ (Live(b[Len(b)]) /\ last.now < e /\ e < last.cut /\ ServeIdx(b, e) = 0 /\ ServeIdx(b, e + 1) = 0) => last.created
X04c_EmptyNever == (last.a = "Precreate" /\ Len(last.before) = 0) => ~last.created
=============================================================================
