------------------------------ MODULE WalFrame ------------------------------
(* C13 - framing state machine of a TSM write-ahead-log segment (tsdb/engine/tsm1/wal.go).        *)
(*                                                                                                *)
(* A segment is a sequence of frames  [type (1 byte) | length (4 bytes) | payload (length bytes)] *)
(* written by WALSegmentWriter.Write.  A crash leaves any prefix of the bytes (Cut).  The reader  *)
(* (WALSegmentReader.Next/Read, driven by CacheLoader.Load) is modelled step by step the way the  *)
(* code works: read 5 header bytes (0 bytes left: clean end; fewer than 5: error), read `length`  *)
(* payload bytes (short: error), decode (snappy, entry type, entry body: error), count the bytes  *)
(* of every entry that decoded (Count()).  On an error CacheLoader truncates the file to Count()  *)
(* and stops.                                                                                      *)
(*                                                                                                *)
(* Property: the entries yielded are exactly the maximal prefix of complete, decodable frames     *)
(* before the cut; nothing else is yielded; the reader ends in "eof" or "error" (never anything   *)
(* else: a panic has no place in the model and is a violation in the harness); the truncation     *)
(* point is the end of the last yielded frame, and re-reading the truncated file yields the same  *)
(* entries and ends cleanly.                                                                       *)
EXTENDS Integers, Sequences, FiniteSets, TLC, Json

CONSTANTS MaxFrames,      \* frames per segment
          PayLens,        \* abstract payload lengths (1 = one byte, 2 = "first and last", 3 = first/middle/last)
          BadKinds        \* subset of {"snappy", "entry", "type"}: ways a complete frame can be undecodable

H == 5                    \* header bytes
Types == {"write", "delete", "deleteRange"}
Frames == [type : Types, plen : PayLens, bad : {"none"} \cup BadKinds]

VARIABLES seg,      \* frames written
          phase,    \* "write" | "read" | "reread" | "done"
          size,     \* bytes of the file (after Cut / Truncate)
          pos,      \* reader offset
          k,        \* index of the next frame the reader will meet
          out,      \* indices of yielded entries, in order
          n,        \* Count(): bytes of successfully decoded entries
          status,   \* "reading" | "eof" | "error"
          first,    \* result of the first pass [out, n, status] (for the re-read comparison)
          cut       \* where the crash cut the file (history; -1 before)
vars == <<seg, phase, size, pos, k, out, n, status, first, cut>>

FSize(f) == H + f.plen
RECURSIVE EndOf(_, _)
EndOf(s, i) == IF i = 0 THEN 0 ELSE EndOf(s, i - 1) + FSize(s[i])
Total(s) == EndOf(s, Len(s))

Init == /\ seg = <<>> /\ phase = "write" /\ size = 0 /\ pos = 0 /\ k = 1 /\ out = <<>> /\ n = 0 /\ status = "reading"
        /\ first = [out |-> <<>>, n |-> 0, status |-> "none"] /\ cut = -1

Write(f) == /\ phase = "write" /\ Len(seg) < MaxFrames
            /\ seg' = Append(seg, f) /\ UNCHANGED <<phase, size, pos, k, out, n, status, first, cut>>

\* the crash: any prefix of the bytes survives (c = Total(seg): nothing lost)
Cut(c) == /\ phase = "write" /\ seg # <<>> /\ c \in 0..Total(seg)
          /\ size' = c /\ cut' = c /\ phase' = "read" /\ UNCHANGED <<seg, pos, k, out, n, status, first>>

\* one call of WALSegmentReader.Next (+ Read)
ReaderNext ==
  /\ phase \in {"read", "reread"} /\ status = "reading"
  /\ LET avail == size - pos IN
     IF avail = 0 THEN                                   \* io.EOF on the first header byte: clean end
          status' = "eof" /\ UNCHANGED <<pos, k, out, n>>
     ELSE IF avail < H THEN                              \* io.ErrUnexpectedEOF inside the header
          status' = "error" /\ UNCHANGED <<pos, k, out, n>>
     ELSE LET f == seg[k] IN
          IF avail < H + f.plen THEN                     \* short payload
               status' = "error" /\ UNCHANGED <<pos, k, out, n>>
          ELSE IF f.bad # "none" THEN                    \* snappy / unknown type / entry body does not decode
               status' = "error" /\ UNCHANGED <<pos, k, out, n>>
          ELSE /\ out' = Append(out, k) /\ pos' = pos + FSize(f) /\ n' = n + FSize(f) /\ k' = k + 1
               /\ UNCHANGED status
  /\ UNCHANGED <<seg, phase, size, first, cut>>

\* CacheLoader: on an error the file is truncated to Count(); then (next start) it is read again
Truncate == /\ phase = "read" /\ status = "error"
            /\ size' = n /\ first' = [out |-> out, n |-> n, status |-> status]
            /\ phase' = "reread" /\ pos' = 0 /\ k' = 1 /\ out' = <<>> /\ n' = 0 /\ status' = "reading"
            /\ UNCHANGED <<seg, cut>>
Finish == /\ \/ (phase = "read" /\ status = "eof")
             \/ (phase = "reread" /\ status # "reading")
          /\ phase' = "done"
          /\ first' = IF phase = "read" THEN [out |-> out, n |-> n, status |-> status] ELSE first
          /\ UNCHANGED <<seg, size, pos, k, out, n, status, cut>>

Next == (\E f \in Frames : Write(f)) \/ (\E c \in 0..Total(seg) : Cut(c)) \/ ReaderNext \/ Truncate \/ Finish
Spec == Init /\ [][Next]_vars

-----------------------------------------------------------------------------
TypeOK == /\ phase \in {"write", "read", "reread", "done"} /\ status \in {"reading", "eof", "error"}
          /\ Len(seg) <= MaxFrames /\ pos <= size /\ n <= size

\* declarative meaning of "replays its prefix": frame i is replayed iff it and all frames before it are
\* complete (end <= cut) and decodable
Replayable(s, c, i) == \A j \in 1..i : EndOf(s, j) <= c /\ s[j].bad = "none"
Prefix(s, c) == LET I == {i \in 1..Len(s) : Replayable(s, c, i)} IN [i \in 1..Cardinality(I) |-> i]

\* (the cut of the first pass is not a variable any more after Truncate: the invariant is stated on the first pass)
C13_TornReplayIsPrefix ==
  (phase = "read" /\ status # "reading") =>
     /\ size = cut
     /\ out = Prefix(seg, size)
     /\ n = EndOf(seg, Len(out))
     \* a clean end exactly when nothing is left after the replayed frames
     /\ (status = "eof") <=> (size = n)
C13_NothingElse == \A i \in 1..Len(out) : out[i] = i /\ EndOf(seg, i) <= size /\ seg[i].bad = "none"
C13_TruncateHeals ==
  (phase = "reread" /\ status # "reading") => (status = "eof" /\ out = first.out /\ n = first.n /\ size = first.n)
C13_ReaderTerminates == (phase = "done") => status \in {"eof", "error"}

\* the case handed to the harness: frames, the cut, and what the first pass must observe
Case == [frames |-> seg, cut |-> cut, entries |-> Len(first.out), count |-> first.n, status |-> first.status]
Emit == (phase = "done") => PrintT(<<"BEHAVIOUR", ToJson(Case)>>)
=============================================================================
