----------------------------- MODULE TSMEngineGen -----------------------------
(* Behaviour generator for replay on a real tsdb.Store / tsm1.Engine.              *)
(* One step = one call of a sequential driver (write batch, snapshot, compaction,   *)
(* delete, reopen), a gate step (snapbegin: the snapshot goroutine is held between  *)
(* writing its .tsm.tmp file and FileStore.Replace; snapend releases it), or a      *)
(* crash: the call named in the step is cut at the given stage (= a hook / observer *)
(* event of the real code, where the harness takes the crash image), the un-synced  *)
(* WAL tail is cut as `how` says, and the behaviour CONTINUES on the image.         *)
(* Every step carries the model's projection after the step.                        *)
EXTENDS TSMEngine, Json

CONSTANTS GenLen,   \* number of steps per behaviour
          Acts,     \* enabled step kinds (profiles steer the random walk)
          CrashIn   \* calls a crash step may cut: subset of {"idle","write","snapshot","compact","delete","restart"}

VARIABLE hist
gvars == <<st, hist>>

PtsRec(d) == {[k |-> p[1], t |-> p[2], v |-> d[p[1]][p[2]]] : p \in PtsIn(d)}
PtSet(b) == {[k |-> p[1], t |-> p[2]] : p \in b}
RECURSIVE SumValid(_)
SumValid(w) == IF w = <<>> THEN 0 ELSE Len(Valid(Head(w))) + SumValid(Tail(w))
Proj(s) == [up |-> s.up,
            read |-> IF s.up THEN PtsRec(ReadOf(s)) ELSE {},
            acked |-> PtsRec(s.acked),
            idx |-> s.idx, taint |-> s.taint, spc |-> s.spc, gap |-> s.gap,
            nfiles |-> Cardinality({f \in s.files : ~f.tmp}), ntmp |-> Cardinality({f \in s.files : f.tmp}),
            ndead |-> Cardinality({f \in s.files : f.dead # {}}),
            nseg |-> Cardinality({i \in 1..Len(s.wal) : s.wal[i] # <<>>}),          \* non-empty segment files
            nvalid |-> SumValid(s.wal)]                                              \* entries a replay would apply
Log(rec) == hist' = Append(hist, rec @@ [st |-> Proj(st')])

NonEmptySegs(s) == Cardinality({i \in 1..Len(s.wal) : s.wal[i] # <<>>})
Idle(s) == s.up /\ s.wpc = "idle" /\ s.cpc = "idle" /\ s.dpc = "idle"
AllIdle(s) == Idle(s) /\ s.spc = "idle"
LenT(s) == Len(TailSeg(s))

GWrite(b) == /\ "write" \in Acts /\ En_Write(st) /\ Idle(st) /\ st.spc \in {"idle", "tmp"}
             /\ st' = WriteAll(st, b)
             /\ Log([a |-> "write", id |-> st.nW + 1, pts |-> PtSet(b)])
GSnapshot == /\ "snapshot" \in Acts /\ En_SnapBegin(st) /\ AllIdle(st)
             /\ ("fullsnap" \notin Acts \/ st.cache # Empty)         \* profile switch: no snapshots of an empty cache
             /\ ("multiseg" \notin Acts \/ NonEmptySegs(st) >= 2)    \* profile switch: only over several WAL segments
             /\ st' = SnapAll(st)
             /\ Log([a |-> "snapshot"])
GSnapBegin == /\ "gate" \in Acts /\ En_SnapBegin(st) /\ AllIdle(st) /\ st.cache # Empty
              /\ st' = SnapTmp(SnapBegin(st))
              /\ Log([a |-> "snapbegin"])
GSnapEnd == /\ Idle(st) /\ st.spc = "tmp"
            /\ st' = SnapFinish(st)
            /\ Log([a |-> "snapend"])
GCompact == /\ "compact" \in Acts /\ En_CompBegin(st) /\ Idle(st) /\ st.spc \in {"idle", "tmp"}
            /\ st' = CompAll(st)
            /\ Log([a |-> "compact"])
Sels == (SUBSET Series) \ {{}}
GDelete(S, lo, hi, open) ==
            /\ "delete" \in Acts /\ En_DelBegin(st) /\ Idle(st) /\ st.spc \in {"idle", "tmp"}
            \* profile switch "effdel": only deletes that hit points stored in a TSM file (a tombstone is written)
            /\ ("effdel" \notin Acts \/ \E f \in st.fset : HasTarget(f, KeysOf(S), lo, hi))
            /\ st' = DelAll(st, S, lo, hi)
            /\ Log([a |-> "delete", sel |-> S, lo |-> lo, hi |-> hi, open |-> open])
GWalRoll == /\ "walroll" \in Acts /\ En_WalRoll(st) /\ Idle(st) /\ st.spc \in {"idle", "tmp"}
            /\ st' = WalRoll(st)
            /\ Log([a |-> "walroll"])
GReopen == /\ "reopen" \in Acts /\ AllIdle(st)
           /\ st' = Reopen(st)
           /\ Log([a |-> "reopen"])

\* ---- crashes.  `in` = the call that is running, `stage` = how far it got, `how` = fate of the un-synced tail
GCrashIdle == /\ "crash" \in Acts /\ "idle" \in CrashIn /\ En_Crash(st) /\ Idle(st) /\ st.spc \in {"idle", "tmp"}
              /\ st' = Crash(st, LenT(st), FALSE)
              /\ Log([a |-> "crash", in |-> "idle"])
GCrashWrite(b, how) ==
  /\ "crash" \in Acts /\ "write" \in CrashIn /\ En_Crash(st) /\ En_Write(st) /\ Idle(st) /\ st.spc \in {"idle", "tmp"}
  /\ LET s1 == WAppend(WCache(st, b)) IN
       st' = CASE how = "lost" -> Crash(s1, LenT(s1) - 1, FALSE)      \* nothing of the entry reached the disk
               [] how = "torn" -> Crash(s1, LenT(s1) - 1, TRUE)       \* a proper prefix of its bytes did
               [] how = "full" -> Crash(s1, LenT(s1), FALSE)          \* all of it did, the call never returned
  /\ Log([a |-> "crash", in |-> "write", id |-> st.nW + 1, pts |-> PtSet(b), how |-> how])
SnapTo(s, stage) ==
  LET s1 == SnapBegin(s)  s2 == SnapTmp(s1)  s3 == SnapRename(s2)  s4 == SnapClear(SnapInstall(s3))
  IN CASE stage = "taken" -> s1 [] stage = "tmp" -> s2 [] stage = "renamed" -> s3
       [] stage = "cleared" -> s4 [] stage = "walremoved" -> SnapWalRemoveAll(s4)
       [] stage = "walremove1" -> SnapWalRemove(s4)          \* the first (oldest) of several closed segments is gone
GCrashSnap(stage) ==
  /\ "crash" \in Acts /\ "snapshot" \in Acts /\ "snapshot" \in CrashIn /\ En_Crash(st) /\ En_SnapBegin(st) /\ AllIdle(st) /\ st.cache # Empty
  \* "walremove1" needs the per-file hook in WAL.Remove (profile switch "perseg") and at least two closed segments
  /\ (stage = "walremove1" => "perseg" \in Acts /\ SnapBegin(st).snapN >= 2)
  /\ ("multiseg" \notin Acts \/ NonEmptySegs(st) >= 2)
  /\ LET s1 == SnapTo(st, stage) IN st' = Crash(s1, LenT(s1), FALSE)
  /\ Log([a |-> "crash", in |-> "snapshot", stage |-> stage])
CompTo(s, stage) ==
  LET s1 == CompTmp(CompBegin(s))
      s2 == IF s1.cpc = "tmp" THEN CompRename(s1) ELSE s1
      s3 == CompRemove(s2, MinId(CompLeft(s2)))
  IN CASE stage = "tmp" -> s1 [] stage = "renamed" -> s2 [] stage = "removed1" -> s3
       [] stage = "synced" -> CompRemoveAll(s2)
GCrashComp(stage) ==
  /\ "crash" \in Acts /\ "compact" \in Acts /\ "compact" \in CrashIn /\ En_Crash(st) /\ En_CompBegin(st) /\ AllIdle(st)
  /\ CompTmp(CompBegin(st)).cpc = "tmp"                 \* there is an output file (hooks for the stages exist)
  /\ LET s1 == CompTo(st, stage) IN st' = Crash(s1, LenT(s1), FALSE)
  /\ Log([a |-> "crash", in |-> "compact", stage |-> stage])
\* the first deleteSeriesRange call of the delete that does not return early is cut at `stage`
RECURSIVE DelFirst(_)
DelFirst(s) == IF s.dpc = "done" THEN s ELSE LET s1 == DelNext(s) IN IF s1.dpc = "tomb" THEN s1 ELSE DelFirst(s1)
DelTo(s, S, lo, hi, stage) ==
  LET s1 == DelTombAll(DelFirst(DelBegin(s, S, lo, hi)))  s2 == DelCache(s1)  s3 == DelWal(s2)
  IN CASE stage = "tombstoned" -> s1 [] stage = "cache" -> s2 [] stage = "wal" -> s3
GCrashDel(S, lo, hi, stage) ==
  /\ "crash" \in Acts /\ "delete" \in Acts /\ "delete" \in CrashIn /\ En_Crash(st) /\ En_DelBegin(st) /\ AllIdle(st)
  /\ DelFirst(DelBegin(st, S, lo, hi)).dpc = "tomb"     \* some measurement gets past the early return
  /\ LET s1 == DelTo(st, S, lo, hi, stage) IN st' = Crash(s1, LenT(s1), FALSE)
  /\ Log([a |-> "crash", in |-> "delete", sel |-> S, lo |-> lo, hi |-> hi, open |-> FALSE, stage |-> stage])
GRestart == /\ ~st.up /\ st.rpc = "down"
            /\ st' = Restart(st)
            /\ Log([a |-> "restart"])
GRestartCrash ==        \* the recovering process dies after Engine.cleanup, before the WAL is replayed
            /\ "crash" \in Acts /\ "restart" \in CrashIn /\ ~st.up /\ st.rpc = "down" /\ st.nCr < MaxCrash
            /\ LET s1 == RecCleanup(st) IN st' = [Crash(s1, LenT(s1), FALSE) EXCEPT !.rpc = "down"]
            /\ Log([a |-> "restartcrash"])

\* batches of the generator: single points, and pairs that share the key or the timestamp
GBatches == {b \in Batches : Cardinality(b) = 1 \/ \E p, q \in b : p # q /\ (p[1] = q[1] \/ p[2] = q[2])}

GInit == Init /\ hist = <<>>
\* Simulation picks uniformly among successor STATES, so a step kind with many argument values would
\* crowd out the others: arguments are drawn at random here (one or two per step kind and step).
Pick1(S) == {RandomElement(S)}
Pick2(S) == {RandomElement(S), RandomElement(S)}
DelArgs == {d \in Sels \X Times \X Times \X BOOLEAN : d[2] <= d[3]}
GNext ==
  /\ Len(hist) < GenLen
  /\ \/ \E b \in Pick2(GBatches) : GWrite(b)
     \/ GSnapshot \/ GSnapBegin \/ GSnapEnd \/ GCompact \/ GReopen \/ GWalRoll
     \/ \E d \in Pick2(DelArgs) : GDelete(d[1], d[2], d[3], d[4])
     \/ GCrashIdle
     \/ \E b \in Pick1(GBatches), how \in {"lost", "torn", "full"} : GCrashWrite(b, how)
     \/ \E stage \in Pick1({"taken", "tmp", "renamed", "cleared", "walremove1", "walremoved"}) : GCrashSnap(stage)
     \/ \E stage \in Pick1({"tmp", "renamed", "removed1", "synced"}) : GCrashComp(stage)
     \/ \E d \in Pick2(DelArgs), stage \in Pick1({"tombstoned", "cache", "wal"}) : GCrashDel(d[1], d[2], d[3], stage)
     \/ GRestart \/ GRestartCrash
GSpec == GInit /\ [][GNext]_gvars

Emit == (Len(hist) = GenLen) => PrintT(<<"BEHAVIOUR", ToJson(hist)>>)
=============================================================================
