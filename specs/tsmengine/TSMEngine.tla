------------------------------- MODULE TSMEngine -------------------------------
(***************************************************************************)
(* The tsm1 storage engine of one shard (tsdb/engine/tsm1) at the level of *)
(* its durable steps: WAL segments, TSM files (tmp / live / tombstones),   *)
(* cache + cache snapshot, the in-memory file set and the series index.    *)
(*                                                                         *)
(* The whole state is ONE record `st`; every step of the code is a pure    *)
(* operator  Op(s, args)  with an enabling predicate  En_Op(s, args) , so  *)
(* that (a) the interleaving model is  st' = Op(st, ...)  for one operator *)
(* at a time and (b) the behaviour generator (TSMEngineGen) can compose    *)
(* the same operators into whole API calls of a sequential driver and cut  *)
(* them at any stage with a crash.                                         *)
(*                                                                         *)
(* Code map (file:function -> operators)                                   *)
(*  engine.go:WritePointsWithContext   WCache (index + Cache.WriteMulti)   *)
(*  wal.go:writeToLog / sync           WAppend, WSync, then WAck (return)  *)
(*  engine.go:WriteSnapshot            SnapBegin (e.mu.Lock: CloseSegment, *)
(*                                     ClosedSegments, Cache.Snapshot)     *)
(*  compact.go:WriteSnapshot           SnapTmp  (NNN-001.tsm.tmp, synced)  *)
(*  file_store.go:replace              SnapRename, SnapInstall             *)
(*  engine.go:writeSnapshotAndCommit   SnapClear, SnapWalRemove (WAL.Remove:*)
(*                                     one step per closed segment, oldest *)
(*                                     first, as ClosedSegments lists them)*)
(*  wal.go:rollSegment/newSegmentFile  WalRoll                             *)
(*  engine.go:compactGroup             CompBegin, CompTmp, CompRename,     *)
(*   + file_store.go:replace           CompRemove(f)..., CompInstall       *)
(*  store.go:DeleteSeries              DelBegin, DelNext (per measurement) *)
(*  engine.go:deleteSeriesRange        DelTomb(f)..., DelCache, DelWal,    *)
(*                                     DelIndex; DelDone (call returns)    *)
(*  engine.go:Open                     RecCleanup (cleanup tmp),           *)
(*   (WAL.Open, FileStore.Open,        RecOpen (seek to end, load files,   *)
(*    reloadCache/CacheLoader.Load)             replay + truncate)         *)
(*                                                                         *)
(* Values: a write with id w stores the value w at each of its points, so  *)
(* last-write-wins is visible in the value.  0 = no point.                 *)
(*                                                                         *)
(* Deviations of the implementation are actions/branches guarded by Dev:   *)
(*  "F1"  Engine.Open positions the WAL writer (seek to end) before        *)
(*        reloadCache truncates a torn tail: the next entry is written     *)
(*        behind a hole and is dropped by the following replay.            *)
(*  "F14" a delete may run while a cache snapshot is in flight (and a      *)
(*        snapshot may start inside a delete); the snapshot store is not   *)
(*        filtered and the file written from it gets no tombstone.         *)
(* Steps taken through "F14" put it into `taint`; the property formulas    *)
(* are claimed for untainted behaviours.                                   *)
(***************************************************************************)
EXTENDS Integers, Sequences, FiniteSets, TLC

CONSTANTS Keys,        \* composite keys (series + field): subset of {"a1","a2","b1"}
          Times,       \* timestamps, e.g. 0..2
          MaxWrites,   \* bound: number of write calls (= largest value)
          MaxBatch,    \* bound: points per write
          MaxSnap, MaxCompact, MaxDelete, MaxCrash,   \* bounds on the other calls
          MaxRoll,     \* bound: WAL segment rollovers (wal.go rollSegment -> newSegmentFile)
          Dev          \* enabled deviations, subset of {"F1", "F14"} (+ "walNewestFirst": negative control only)

VARIABLE st

-----------------------------------------------------------------------------
\* keys -> series (measurement + tag set); "a1" and "a2" are two fields of one series
Ser(k) == CASE k = "a1" -> "a" [] k = "a2" -> "a" [] k = "b1" -> "b" [] OTHER -> k
Series == {Ser(k) : k \in Keys}
KeysOf(S) == {k \in Keys : Ser(k) \in S}
Pts == Keys \X Times

Empty == [k \in Keys |-> [t \in Times |-> 0]]
Over(a, b) == [k \in Keys |-> [t \in Times |-> IF b[k][t] # 0 THEN b[k][t] ELSE a[k][t]]]   \* b wins
Put(a, pts, v) == [k \in Keys |-> [t \in Times |-> IF <<k, t>> \in pts THEN v ELSE a[k][t]]]
InRange(k, t, ks, lo, hi) == k \in ks /\ lo <= t /\ t <= hi                                  \* inclusive
Zap(a, ks, lo, hi) == [k \in Keys |-> [t \in Times |-> IF InRange(k, t, ks, lo, hi) THEN 0 ELSE a[k][t]]]
Hide(a, dead) == [k \in Keys |-> [t \in Times |-> IF <<k, t>> \in dead THEN 0 ELSE a[k][t]]]
HasKey(a, k) == \E t \in Times : a[k][t] # 0
KeysIn(a) == {k \in Keys : HasKey(a, k)}
PtsIn(a) == {p \in Pts : a[p[1]][p[2]] # 0}

\* ---- files.  durable: [gen, seq, tmp, data, dead]; in memory: [gen, seq, data, dead]
Id(f) == <<f.gen, f.seq>>
NoId == <<0, 0>>
Mem(f) == [gen |-> f.gen, seq |-> f.seq, data |-> f.data, dead |-> f.dead]
Vis(f) == Hide(f.data, f.dead)
FLess(f, g) == f.gen < g.gen \/ (f.gen = g.gen /\ f.seq < g.seq)
MaxFile(F) == CHOOSE f \in F : \A g \in F \ {f} : FLess(g, f)
RECURSIVE Lww(_)
Lww(F) == IF F = {} THEN Empty ELSE LET m == MaxFile(F) IN Over(Lww(F \ {m}), Vis(m))   \* newer file wins
MaxGen(F) == IF F = {} THEN 0 ELSE MaxFile(F).gen
VisTimes(f) == {p[2] : p \in PtsIn(Vis(f))}
FileOverlaps(f, lo, hi) ==          \* TSMFile.OverlapsTimeRange: [min time, max time] of the file meets [lo, hi]
  /\ VisTimes(f) # {}
  /\ \E a \in VisTimes(f) : a <= hi
  /\ \E b \in VisTimes(f) : b >= lo
HasTarget(f, ks, lo, hi) == \E p \in PtsIn(Vis(f)) : InRange(p[1], p[2], ks, lo, hi)

\* ---- WAL entries (uniform shape).  "x" = bytes that do not decode: a torn entry or a hole.
WEntry(w) == [ty |-> "w", id |-> w.id, pts |-> w.pts, ks |-> {}, lo |-> 0, hi |-> 0]
DEntry(ks, lo, hi) == [ty |-> "d", id |-> 0, pts |-> {}, ks |-> ks, lo |-> lo, hi |-> hi]
X == [ty |-> "x", id |-> 0, pts |-> {}, ks |-> {}, lo |-> 0, hi |-> 0]
ApplyE(c, e) == IF e.ty = "w" THEN Put(c, e.pts, e.id) ELSE Zap(c, e.ks, e.lo, e.hi)
RECURSIVE ReplaySeg(_, _)
ReplaySeg(c, seg) == IF seg = <<>> \/ Head(seg).ty = "x" THEN c       \* CacheLoader.Load: stop at the first corrupt entry
                     ELSE ReplaySeg(ApplyE(c, Head(seg)), Tail(seg))
RECURSIVE ReplayAll(_, _)
ReplayAll(c, w) == IF w = <<>> THEN c ELSE ReplayAll(ReplaySeg(c, Head(w)), Tail(w))   \* ... and go on with the next file
\* duplicates left in the cache by a replay (a delete entry removes the duplicates of its points with them)
Zero == [k \in Keys |-> [t \in Times |-> 0]]
RECURSIVE DupSeg(_, _, _)
DupSeg(c, d, seg) ==
  IF seg = <<>> \/ Head(seg).ty = "x" THEN [c |-> c, d |-> d]
  ELSE LET e == Head(seg) IN
       IF e.ty = "w"
       THEN DupSeg(ApplyE(c, e), [k \in Keys |-> [t \in Times |-> IF <<k, t>> \in e.pts /\ c[k][t] # 0 THEN d[k][t] + 1 ELSE d[k][t]]], Tail(seg))
       ELSE DupSeg(ApplyE(c, e), Zap(d, e.ks, e.lo, e.hi), Tail(seg))
RECURSIVE DupAll(_, _, _)
DupAll(c, d, w) == IF w = <<>> THEN d ELSE LET r == DupSeg(c, d, Head(w)) IN DupAll(r.c, r.d, Tail(w))
RECURSIVE SumD(_, _)
SumD(d, P) == IF P = {} THEN 0 ELSE LET p == CHOOSE q \in P : TRUE IN d[p[1]][p[2]] + SumD(d, P \ {p})
RECURSIVE Valid(_)
Valid(seg) == IF seg = <<>> \/ Head(seg).ty = "x" THEN <<>> ELSE <<Head(seg)>> \o Valid(Tail(seg))

TailSeg(s) == s.wal[Len(s.wal)]
AppendTail(s, e) ==     \* the open writer appends at ITS offset: behind a hole when the file was truncated under it (F1)
  [s EXCEPT !.wal = [@ EXCEPT ![Len(@)] = @ \o (IF s.gap THEN <<X, e>> ELSE <<e>>)], !.gap = FALSE]

NoW == [id |-> 0, pts |-> {}]
NoD == [S |-> {}, lo |-> 0, hi |-> 0, rest |-> {}, ks |-> {}, todo |-> {}, ck |-> {}]

-----------------------------------------------------------------------------
\* What a read of the running process returns / what a restarted process would return
ReadOf(s) == Over(Over(Lww(s.fset), s.snap), s.cache)
RecRead(s, cut) ==      \* Appendix A: die now, keep `cut` entries of the newest segment, restart, read
  LET w2 == [s.wal EXCEPT ![Len(s.wal)] = SubSeq(@, 1, cut)]
  IN  Over(Lww({Mem(f) : f \in {g \in s.files : ~g.tmp}}), ReplayAll(Empty, w2))
Cuts(s) == s.synced..Len(TailSeg(s))

-----------------------------------------------------------------------------
\* WRITE   Engine.WritePointsWithContext holds e.mu.RLock from the cache write to the return
En_Write(s) == s.up /\ s.wpc = "idle" /\ s.dpc = "idle" /\ s.nW < MaxWrites
\* `resid`: Cache.Size() is byte accounting; a value that is overwritten in the hot cache is counted twice and the
\* duplicate disappears silently when the entry is de-duplicated by the next read, so the size stays above zero
\* after everything was deleted.  It only decides which path an "empty" snapshot takes (SnapBegin).
WCache(s, pts) == [s EXCEPT !.cache = Put(@, pts, s.nW + 1), !.idx = @ \cup {Ser(p[1]) : p \in pts},
                            !.resid = @ + Cardinality({p \in pts : s.cache[p[1]][p[2]] # 0}),
                            !.wcur = [id |-> s.nW + 1, pts |-> pts], !.wpc = "cached", !.nW = @ + 1]
WAppend(s) == [AppendTail(s, WEntry(s.wcur)) EXCEPT !.wpc = "appended"]
WSync(s) == [s EXCEPT !.synced = Len(TailSeg(s)), !.wpc = "synced"]
WAck(s) == [s EXCEPT !.acked = Put(@, s.wcur.pts, s.wcur.id), !.wpc = "idle", !.wcur = NoW]
WriteAll(s, pts) == WAck(WSync(WAppend(WCache(s, pts))))

\* SNAPSHOT
En_SnapBegin(s) == /\ s.up /\ s.spc = "idle" /\ s.nS < MaxSnap
                   /\ s.wpc = "idle"                            \* e.mu.Lock excludes writes in progress
                   /\ (s.dpc = "idle" \/ "F14" \in Dev)
SnapBegin(s) ==
  LET roll == TailSeg(s) # <<>> \/ s.gap                        \* CloseSegment: only a non-empty segment is closed
      w2 == IF roll THEN Append(s.wal, <<>>) ELSE s.wal
      s1 == [s EXCEPT !.wal = w2, !.synced = IF roll THEN 0 ELSE @, !.gap = FALSE, !.nS = @ + 1]
  IN IF s.cache = Empty /\ s.resid = 0 THEN s1                  \* snapshot.Size() = 0: cleared at once, segments stay
     ELSE [s1 EXCEPT !.snap = s.cache, !.cache = Empty, !.resid = 0, !.snapN = Len(w2) - 1, !.spc = "taken",
                     !.taint = IF s.dpc # "idle" THEN @ \cup {"F14"} ELSE @]
SnapTmp(s) == IF s.snap = Empty THEN [s EXCEPT !.sfile = NoId, !.spc = "tmp"]      \* nothing to write: no file
              ELSE [s EXCEPT !.files = @ \cup {[gen |-> s.gen, seq |-> 1, tmp |-> TRUE, data |-> s.snap, dead |-> {}]},
                             !.sfile = <<s.gen, 1>>, !.gen = @ + 1, !.spc = "tmp"]
SnapRename(s) == [s EXCEPT !.files = {IF Id(f) = s.sfile THEN [f EXCEPT !.tmp = FALSE] ELSE f : f \in @}, !.spc = "renamed"]
SnapInstall(s) == [s EXCEPT !.fset = @ \cup {Mem(f) : f \in {g \in s.files : Id(g) = s.sfile}}, !.spc = "installed"]
SnapClear(s) == [s EXCEPT !.snap = Empty, !.spc = "cleared"]
\* WAL.Remove(closedFiles) unlinks the closed segments one by one in the order ClosedSegments returned them (oldest
\* first); the process can die between two unlinks.  The order matters: a newer segment may overwrite or delete what
\* an older one wrote, so an older segment must never outlive a newer one.
SnapWalRemove(s) == IF s.snapN = 0 THEN [s EXCEPT !.sfile = NoId, !.spc = "idle"]
                    ELSE [s EXCEPT !.wal = IF "walNewestFirst" \in Dev       \* negative control: wrong order
                                          THEN SubSeq(@, 1, s.snapN - 1) \o SubSeq(@, s.snapN + 1, Len(@)) ELSE Tail(@),
                                   !.snapN = @ - 1,
                                   !.sfile = IF s.snapN = 1 THEN NoId ELSE @, !.spc = IF s.snapN = 1 THEN "idle" ELSE @]
RECURSIVE SnapWalRemoveAll(_)
SnapWalRemoveAll(s) == IF s.spc = "idle" THEN s ELSE SnapWalRemoveAll(SnapWalRemove(s))
SnapFinish(s) == SnapWalRemoveAll(SnapClear(SnapInstall(SnapRename(s))))       \* from "tmp"
\* Segment rollover: the current segment is synced and closed, a new empty one becomes current (wal.go rollSegment when
\* the segment exceeds 10 MB; the same newSegmentFile as CloseSegment).  Happens at the start of a write, under the WAL lock.
En_WalRoll(s) == s.up /\ s.wpc = "idle" /\ s.dpc = "idle" /\ s.nR < MaxRoll /\ TailSeg(s) # <<>>
WalRoll(s) == [s EXCEPT !.wal = Append(@, <<>>), !.synced = 0, !.gap = FALSE, !.nR = @ + 1]
SnapAll(s) == LET s1 == SnapBegin(s) IN IF s1.spc = "taken" THEN SnapFinish(SnapTmp(s1)) ELSE s1

\* COMPACTION (full: all files of the file set)
En_CompBegin(s) == /\ s.up /\ s.cpc = "idle" /\ s.dpc = "idle" /\ s.nC < MaxCompact
                   \* the planner's precondition (not FullyCompacted): more than one generation, or tombstones
                   /\ (Cardinality({f.gen : f \in s.fset}) >= 2 \/ \E f \in s.fset : f.dead # {})
CompBegin(s) == [s EXCEPT !.cgroup = {Id(f) : f \in s.fset}, !.cpc = "planned", !.nC = @ + 1]
CompTmp(s) ==
  LET grp == {f \in s.fset : Id(f) \in s.cgroup}
      d == Lww(grp)
      mg == MaxGen(grp)
      ms == MaxFile({f \in grp : f.gen = mg}).seq
  IN IF d = Empty THEN [s EXCEPT !.cnew = NoId, !.cpc = "removing"]       \* only tombstoned data: no output file
     ELSE [s EXCEPT !.files = @ \cup {[gen |-> mg, seq |-> ms + 1, tmp |-> TRUE, data |-> d, dead |-> {}]},
                    !.cnew = <<mg, ms + 1>>, !.cpc = "tmp"]
CompRename(s) == [s EXCEPT !.files = {IF Id(f) = s.cnew THEN [f EXCEPT !.tmp = FALSE] ELSE f : f \in @}, !.cpc = "removing"]
CompAbort(s) == [s EXCEPT !.files = {f \in @ : Id(f) # s.cnew \/ ~f.tmp}, !.cnew = NoId, !.cgroup = {}, !.cpc = "idle"]
CompLeft(s) == {Id(f) : f \in s.files} \cap s.cgroup
CompRemove(s, id) == [s EXCEPT !.files = {f \in @ : Id(f) # id}]
CompInstall(s) == [s EXCEPT !.fset = {f \in @ : Id(f) \notin s.cgroup} \cup {Mem(f) : f \in {g \in s.files : Id(g) = s.cnew}},
                            !.cgroup = {}, !.cnew = NoId, !.cpc = "idle"]
IdLess(i, j) == i[1] < j[1] \/ (i[1] = j[1] /\ i[2] < j[2])
MinId(I) == CHOOSE i \in I : \A j \in I \ {i} : IdLess(i, j)      \* replace() walks the files in name order
RECURSIVE CompRemoveAll(_)
CompRemoveAll(s) == IF CompLeft(s) = {} THEN s
                    ELSE CompRemoveAll(CompRemove(s, MinId(CompLeft(s))))
CompAll(s) == LET s1 == CompTmp(CompBegin(s))
                  s2 == IF s1.cpc = "tmp" THEN CompRename(s1) ELSE s1
              IN CompInstall(CompRemoveAll(s2))

\* DELETE  Store.DeleteSeries walks the measurements of the selection in name order and runs
\* Engine.DeleteSeriesRangeWithPredicate -> deleteSeriesRange once per measurement (= per series here):
\* tombstones on every file, cache range, WAL delete entry, index reconciliation, then the next one.
En_DelBegin(s) == /\ s.up /\ s.dpc = "idle" /\ s.nD < MaxDelete
                  /\ s.wpc = "idle"                             \* simplification: no write overlaps a delete
                  /\ s.cpc = "idle"                             \* disableLevelCompactions(true)
                  /\ (s.spc = "idle" \/ "F14" \in Dev)          \* snapshots are deliberately not stopped
SerOrd(x) == CASE x = "a" -> 1 [] x = "b" -> 2 [] OTHER -> 3
MinSer(S) == CHOOSE x \in S : \A y \in S : SerOrd(x) <= SerOrd(y)
DelBegin(s, S, lo, hi) ==
  [s EXCEPT !.nD = @ + 1, !.dpc = "next",
            !.dcur = [S |-> S, lo |-> lo, hi |-> hi, rest |-> S, ks |-> {}, todo |-> {}, ck |-> {}],
            !.taint = IF s.spc # "idle" THEN @ \cup {"F14"} ELSE @]
DelNext(s) ==
  IF s.dcur.rest = {} THEN [s EXCEPT !.dpc = "done"]
  ELSE LET x == MinSer(s.dcur.rest)
           ks == KeysOf({x} \cap s.idx)                         \* series are found through the index
           ovl == (\E f \in s.fset : FileOverlaps(f, s.dcur.lo, s.dcur.hi)) \/ s.cache # Empty
           todo == {Id(f) : f \in {g \in s.fset : HasTarget(g, ks, s.dcur.lo, s.dcur.hi)}}
           s1 == [s EXCEPT !.dcur = [@ EXCEPT !.rest = @ \ {x}, !.ks = ks, !.todo = todo, !.ck = {}]]
       IN IF ks = {} \/ ~ovl THEN s1                            \* nothing found / early return of deleteSeriesRange
          ELSE [s1 EXCEPT !.dpc = "tomb"]
DeadOf(f, d) == f.dead \cup {p \in PtsIn(f.data) : InRange(p[1], p[2], d.ks, d.lo, d.hi)}
DelTomb(s, id) == [s EXCEPT !.files = {IF Id(f) = id THEN [f EXCEPT !.dead = DeadOf(f, s.dcur)] ELSE f : f \in @},
                            !.fset = {IF Id(f) = id THEN [f EXCEPT !.dead = DeadOf(f, s.dcur)] ELSE f : f \in @},
                            !.dcur = [@ EXCEPT !.todo = @ \ {id}]]
DelCache(s) == [s EXCEPT !.dcur = [@ EXCEPT !.ck = {k \in s.dcur.ks : HasKey(s.cache, k)}],
                         !.cache = Zap(@, s.dcur.ks, s.dcur.lo, s.dcur.hi),      \* hot store only, as in Cache.DeleteRange
                         !.dpc = "cache"]
DelWal(s) == IF s.dcur.ck = {} THEN [s EXCEPT !.dpc = "wal"]                    \* WAL.DeleteRange with no keys: no entry
             ELSE LET s1 == AppendTail(s, DEntry(s.dcur.ck, s.dcur.lo, s.dcur.hi))
                  IN [s1 EXCEPT !.synced = Len(TailSeg(s1)), !.dpc = "wal"]
\* (a key that was found in the hot store before the delete is re-checked with Cache.Values, which merges the
\*  snapshot store: only such keys see an in-flight snapshot - relevant under F14 only)
DelIndex(s) == LET live == UNION {KeysIn(Vis(f)) : f \in s.fset} \cup KeysIn(s.cache) \cup {k \in s.dcur.ck : HasKey(s.snap, k)}
                   gone == {x \in Series : KeysOf({x}) \cap s.dcur.ks # {} /\ KeysOf({x}) \cap live = {}}
               IN [s EXCEPT !.idx = @ \ gone, !.dpc = "next"]
DelDone(s) == [s EXCEPT !.acked = Zap(@, KeysOf(s.dcur.S), s.dcur.lo, s.dcur.hi), !.dcur = NoD, !.dpc = "idle"]
RECURSIVE DelTombAll(_)
DelTombAll(s) == IF s.dcur.todo = {} THEN s ELSE DelTombAll(DelTomb(s, CHOOSE i \in s.dcur.todo : TRUE))
DelOne(s) == DelIndex(DelWal(DelCache(DelTombAll(s))))         \* from "tomb" back to "next"
RECURSIVE DelRun(_)
DelRun(s) == IF s.dpc = "done" THEN s ELSE LET s1 == DelNext(s) IN DelRun(IF s1.dpc = "tomb" THEN DelOne(s1) ELSE s1)
DelAll(s, S, lo, hi) == DelDone(DelRun(DelBegin(s, S, lo, hi)))

\* CRASH / RECOVERY
En_Crash(s) == s.nCr < MaxCrash /\ (s.up \/ s.rpc = "cleaned")
Crash(s, cut, torn) ==
  LET t2 == SubSeq(TailSeg(s), 1, cut) \o (IF torn THEN <<X>> ELSE <<>>)
  IN [s EXCEPT !.wal = [@ EXCEPT ![Len(@)] = t2], !.synced = Len(t2), !.gap = FALSE,
               !.cache = Empty, !.resid = 0, !.snap = Empty, !.fset = {}, !.idx = {}, !.up = FALSE, !.rpc = "down",
               !.spc = "idle", !.snapN = 0, !.sfile = NoId, !.cpc = "idle", !.cgroup = {}, !.cnew = NoId,
               !.nCr = @ + 1]          \* wpc/wcur/dpc/dcur stay: the call that was in flight when the process died
RecCleanup(s) == [s EXCEPT !.files = {f \in @ : ~f.tmp}, !.rpc = "cleaned"]
RecOpen(s) ==
  LET w2 == [i \in 1..Len(s.wal) |-> Valid(s.wal[i])]
      trunc == Valid(TailSeg(s)) # TailSeg(s)
      c == ReplayAll(Empty, w2)
      fs == {Mem(f) : f \in s.files}
      rd == Over(Lww(fs), c)
  IN [s EXCEPT !.wal = w2, !.synced = Len(w2[Len(w2)]), !.gap = ("F1" \in Dev) /\ trunc,
               !.cache = c, !.resid = SumD(DupAll(Empty, Zero, w2), Pts), !.fset = fs, !.gen = MaxGen(fs) + 1,
               !.idx = {Ser(k) : k \in (UNION {KeysIn(Vis(f)) : f \in fs}) \cup KeysIn(c)},     \* inmem index: rebuilt from files + cache
               !.up = TRUE, !.rpc = "up", !.wpc = "idle", !.wcur = NoW, !.dpc = "idle", !.dcur = NoD,
               !.acked = rd]           \* what survived is what clients can now read: the new baseline
Restart(s) == RecOpen(RecCleanup(s))
\* clean shutdown + start: WAL.Close syncs; nothing else is flushed
Reopen(s) == Restart([Crash(s, Len(TailSeg(s)), FALSE) EXCEPT !.nCr = s.nCr])

-----------------------------------------------------------------------------
Init == st = [wal |-> << <<>> >>, synced |-> 0, gap |-> FALSE, files |-> {}, gen |-> 1,
              cache |-> Empty, resid |-> 0, snap |-> Empty, fset |-> {}, idx |-> {}, up |-> TRUE, rpc |-> "up",
              wpc |-> "idle", wcur |-> NoW, spc |-> "idle", snapN |-> 0, sfile |-> NoId,
              cpc |-> "idle", cgroup |-> {}, cnew |-> NoId, dpc |-> "idle", dcur |-> NoD,
              nW |-> 0, nS |-> 0, nC |-> 0, nD |-> 0, nCr |-> 0, nR |-> 0, acked |-> Empty, taint |-> {}]

Batches == {b \in SUBSET Pts : Cardinality(b) \in 1..MaxBatch}

Writer == \/ /\ En_Write(st) /\ \E b \in Batches : st' = WCache(st, b)
          \/ /\ st.up /\ st.wpc = "cached" /\ st' = WAppend(st)
          \/ /\ st.up /\ st.wpc = "appended" /\ st' = WSync(st)
          \/ /\ st.up /\ st.wpc = "synced" /\ st' = WAck(st)
          \/ /\ En_WalRoll(st) /\ st' = WalRoll(st)
Snapshotter == \/ /\ En_SnapBegin(st) /\ st' = SnapBegin(st)
               \/ /\ st.up /\ st.spc = "taken" /\ st' = SnapTmp(st)
               \/ /\ st.up /\ st.spc = "tmp" /\ st' = SnapRename(st)
               \/ /\ st.up /\ st.spc = "renamed" /\ st' = SnapInstall(st)
               \/ /\ st.up /\ st.spc = "installed" /\ st' = SnapClear(st)
               \/ /\ st.up /\ st.spc = "cleared" /\ st' = SnapWalRemove(st)
CompactorP == \/ /\ En_CompBegin(st) /\ st' = CompBegin(st)
              \/ /\ st.up /\ st.cpc = "planned" /\ st' = CompTmp(st)
              \/ /\ st.up /\ st.cpc = "tmp" /\ st' = CompRename(st)
              \/ /\ st.up /\ st.cpc \in {"planned", "tmp"} /\ st' = CompAbort(st)      \* a delete interrupts it
              \/ /\ st.up /\ st.cpc = "removing" /\ \E i \in CompLeft(st) : st' = CompRemove(st, i)
              \/ /\ st.up /\ st.cpc = "removing" /\ CompLeft(st) = {} /\ st' = CompInstall(st)
Deleter == \/ /\ En_DelBegin(st)
              /\ \E S \in (SUBSET Series) \ {{}}, lo \in Times, hi \in Times : lo <= hi /\ st' = DelBegin(st, S, lo, hi)
           \/ /\ st.up /\ st.dpc = "next" /\ st' = DelNext(st)
           \/ /\ st.up /\ st.dpc = "tomb" /\ \E i \in st.dcur.todo : st' = DelTomb(st, i)
           \/ /\ st.up /\ st.dpc = "tomb" /\ st.dcur.todo = {} /\ st' = DelCache(st)
           \/ /\ st.up /\ st.dpc = "cache" /\ st' = DelWal(st)
           \/ /\ st.up /\ st.dpc = "wal" /\ st' = DelIndex(st)
           \/ /\ st.up /\ st.dpc = "done" /\ st' = DelDone(st)
Faults == \/ /\ En_Crash(st)
             /\ \E cut \in Cuts(st), torn \in BOOLEAN : (torn => cut < Len(TailSeg(st))) /\ st' = Crash(st, cut, torn)
          \/ /\ ~st.up /\ st.rpc = "down" /\ st' = RecCleanup(st)
          \/ /\ ~st.up /\ st.rpc = "cleaned" /\ st' = RecOpen(st)

Next == Writer \/ Snapshotter \/ CompactorP \/ Deleter \/ Faults
Spec == Init /\ [][Next]_st

-----------------------------------------------------------------------------
\* Properties.  `acked` is the last-write-wins map of acknowledged writes and completed deletes.
MayW(s, k, t) == s.wpc # "idle" /\ <<k, t>> \in s.wcur.pts                     \* a write not yet acknowledged
MayD(s, k, t) == s.dpc # "idle" /\ InRange(k, t, KeysOf(s.dcur.S), s.dcur.lo, s.dcur.hi)   \* a delete not yet completed
\* A point targeted by a delete that has not completed is unspecified: tombstones are committed file by file, so
\* until the delete is done (or after a crash inside it) a read may return the point, nothing, or - when the newest
\* file was tombstoned first - an older value of the point from an older file.
OkVal(s, v, k, t) == \/ v = s.acked[k][t]
                     \/ MayW(s, k, t) /\ v = s.wcur.id
                     \/ MayD(s, k, t)
Clean == st.taint = {}
Quiet == st.up /\ st.wpc = "idle" /\ st.dpc = "idle"

TypeOK == /\ st.synced \in 0..Len(TailSeg(st)) /\ Len(st.wal) >= 1
          /\ st.nW \in 0..MaxWrites /\ st.taint \subseteq Dev
          /\ \A f \in st.files : f.dead \subseteq Pts

\* C01: wherever the process dies now, and whatever part of the un-synced tail survives, a restart
\* returns every acknowledged point with its value (or that of the write / delete in flight).
C01_Durable == Clean => \A cut \in Cuts(st) : LET r == RecRead(st, cut) IN
                 \A k \in Keys, t \in Times : st.acked[k][t] # 0 => OkVal(st, r[k][t], k, t)
\* the torn tail (entries beyond `synced`) holds only entries of calls that were never acknowledged
C01_TornTailOnlyUnacked == Clean /\ st.up => \A i \in (st.synced + 1)..Len(TailSeg(st)) :
                 LET e == TailSeg(st)[i] IN e.ty = "x" \/ (e.ty = "w" /\ st.wpc # "idle" /\ e.id = st.wcur.id) \/ (e.ty = "d" /\ st.dpc # "idle")
\* C10: a point removed by a completed delete (acked = 0) does not come back: not in the running
\* process, not after a snapshot / compaction step, not after any crash + restart.
C10_NoResurrection == Clean => /\ \A cut \in Cuts(st) : LET r == RecRead(st, cut) IN
                                    \A k \in Keys, t \in Times : st.acked[k][t] = 0 => OkVal(st, r[k][t], k, t)
                               /\ st.up => \A k \in Keys, t \in Times : st.acked[k][t] = 0 => OkVal(st, ReadOf(st)[k][t], k, t)
\* exactly the selected series x [lo, hi] is removed (acked is updated by the inclusive-range oracle in
\* DelDone) and everything acknowledged otherwise, before or after the delete, is read back
C10_ExactRange == Clean /\ Quiet => ReadOf(st) = st.acked
C10_LaterWritesKept == Clean /\ st.up => \A k \in Keys, t \in Times : st.acked[k][t] # 0 => OkVal(st, ReadOf(st)[k][t], k, t)
\* listings: a series is in the index iff it still has points
C10_ListedIffHasPoints == Clean /\ Quiet => st.idx = {Ser(k) : k \in KeysIn(ReadOf(st))}

\* negative control: with a deviation enabled TLC must be able to break the property (expected to FAIL then)
NoTaintedLoss == Quiet => ReadOf(st) = st.acked

\* every growing value is bounded by the guards above; the constraint states it once more
Bounded == /\ Len(st.wal) <= MaxSnap + MaxRoll + 2 /\ Cardinality(st.files) <= MaxSnap + MaxCompact + 2
           /\ \A i \in 1..Len(st.wal) : Len(st.wal[i]) <= 2 * (MaxWrites + MaxDelete) + MaxCrash
=============================================================================
