---------------------------- MODULE CQSchedGen ----------------------------
(* Behaviour generator for the replay of CQSched.tla on real continuous_querier.Service objects (one  *)
(* per node, fake MetaClient answering AcquireLease as the model's lease table says, statement          *)
(* executor recording the time range of every SELECT).  Steps are CQSched's own actions; a "tick" may   *)
(* stand for several Tick steps (by), "manual" is Service.Run (forget + the run request that follows).  *)
(* hist[1] = parameters and initial instant; every record carries the state after the step:            *)
(* st = [now, lease, hasRun, lastRun]; "run" records carry the expected pass (win).                     *)
EXTENDS CQSched, Sequences, Json

CONSTANTS GenLen, MaxJump

VARIABLE hist
gvars == <<vars, hist>>

Proj == [now |-> now', lease |-> lease', hasRun |-> hasRun', lastRun |-> lastRun']
Log(rec) == hist' = Append(hist, rec @@ [st |-> Proj])

GInit == /\ Init
         /\ hist = <<[a |-> "init", par |-> par, now |-> now, d |-> D]>>

\* `by` Tick steps at once
GTick(by) == /\ now + by <= MaxNow /\ now' = now + by
             /\ win' = NoWin
             /\ UNCHANGED <<par, lease, hasRun, lastRun, exN, dupN, exAll, dupAll, failed, faults>>
             /\ Log([a |-> "tick", by |-> by])

GRun(n, qok) == /\ Run(n, qok)
                /\ Log([a |-> "run", n |-> n, qok |-> qok, granted |-> win'.granted, ran |-> win'.ran,
                        start |-> win'.start, end |-> win'.end, first |-> win'.first,
                        manual |-> (hist[Len(hist)].a = "manual")])
GRestart(n) == /\ Restart(n) /\ Log([a |-> "restart", n |-> n])
GManual(n) == /\ Manual(n) /\ Log([a |-> "manual", n |-> n])

GNext == /\ Len(hist) < GenLen
         /\ IF hist[Len(hist)].a = "manual"
            THEN \E qok \in BOOLEAN : GRun(hist[Len(hist)].n, qok)
            ELSE \/ \E by \in 1..MaxJump : GTick(by)
                 \/ \E n \in Nodes, qok \in BOOLEAN, w \in 1..2 : (qok \/ w = 1) /\ GRun(n, qok)
                 \/ \E n \in Nodes : GRestart(n) \/ (Len(hist) < GenLen - 1 /\ GManual(n))

GSpec == GInit /\ [][GNext]_gvars

Emit == (Len(hist) = GenLen) => PrintT(<<"BEHAVIOUR", ToJson(hist)>>)
=============================================================================
