------------------------------ MODULE CQSched ------------------------------
(* The user of the lease: the continuous-query service (services/continuous_querier/service.go).      *)
(*                                                                                                    *)
(* What the code does:                                                                                *)
(*   backgroundLoop   every RunInterval (and on every RunRequest): if any CQ exists and                *)
(*                    MetaClient.AcquireLease("continuous_querier") returns no error, one PASS          *)
(*                    runContinuousQueries(now) over all CQs; otherwise nothing.  The returned lease    *)
(*                    (its expiration) is never looked at.                                   -> Run     *)
(*   ExecuteContinuousQuery(now)  per CQ, with I = GROUP BY time interval, off = its offset,            *)
(*                    E = RESAMPLE EVERY (default I), F = RESAMPLE FOR (default max(I, E)):            *)
(*                      never run before:  run, nextRun = now                                          *)
(*                      else               nextRun = lastRun + E, run iff nextRun <= now               *)
(*                      lastRun := trunc(now - off, E) + off        (BEFORE the query is executed)      *)
(*                      start = trunc(nextRun + I - F - off - 1ns, I) + off                             *)
(*                      end   = trunc(now + I - min(E, I) - off, I) + off                               *)
(*                      end > start: SELECT ... WHERE time >= start AND time < end                      *)
(*   lastRuns         per process, in memory: lost at restart; Service.Run (manual) deletes entries.    *)
(*                                                                                                    *)
(* Time is counted in HALF units: every duration (I, E, F, off, D) is an even number, an even instant  *)
(* is an exact multiple of the unit, an odd instant t stands for "some instant strictly between t-1    *)
(* and t+1" (the harness adds a random sub-unit jitter), so that the code's "- 1ns" is "- 1" here.     *)
(* Time zones (TZ clause, DST shifts) are not modelled: UTC only.                                      *)
(*                                                                                                    *)
(* The lease is the abstract single-table lease of Lease.tla (X01: owner/expiry, takeover only after   *)
(* expiry, renewal by the owner); leadership changes are Lease.tla's subject.                          *)
(*                                                                                                    *)
(* Semantic properties, per node and per life of its process (lastRuns kept), queries succeeding:      *)
(*   X03_LeaseGuards     a pass runs only if the lease was granted to that node at that instant;       *)
(*   X03_NeverFuture     no executed interval lies in the future: for every executed bucket b,         *)
(*                       b + min(E, I) <= now (with E >= I: only complete buckets, b + I <= now);      *)
(*   X03_AtMostOnce      without RESAMPLE clause no bucket is executed twice;                          *)
(*   X03_NoGap           the executed buckets are contiguous: whatever was missed (lease refused,      *)
(*                       late timer) is covered by the next pass that runs (claimed for GapFree        *)
(*                       parameters, see there: EVERY and the interval can be chosen so that even      *)
(*                       on-time passes skip buckets - recorded as a known finding);                   *)
(*   X03_Demand          a pass standing for the schedule point T = trunc(now) covers every bucket b   *)
(*                       with sched - F <= b < T, sched = the first missed schedule point (nextRun)    *)
(*                       (only complete buckets, b + I <= T, when EVERY does not divide the interval); *)
(*                       a first pass covers now - F <= b < now iff it happens exactly on a point.     *)
(* Across nodes (leads, EXPECTED TO BE VIOLATED; design limitations of an in-memory lastRuns):         *)
(*   Lead_ClusterAtMostOnce  a bucket is executed once in the whole cluster (fails: hand-over to a     *)
(*                           node whose lastRun is older re-executes what the previous holder did);    *)
(*   Lead_ClusterNoGap       the buckets executed in the cluster are contiguous (fails: hand-over to a *)
(*                           node that never ran skips up to one interval; so does a restart, so does  *)
(*                           a failed query, because lastRun is advanced before the query runs).       *)
EXTENDS Integers, FiniteSets, TLC

CONSTANTS Nodes,     \* data nodes running the service
          Is, Es, Fs, Os,  \* sets of: GROUP BY interval, RESAMPLE EVERY (0 = absent), FOR (0 = absent), offset
          D,         \* lease duration (half units)
          Now0,      \* set of initial instants
          MaxNow,    \* clock bound
          MaxFaults  \* bound on restarts + manual runs + failing queries

NoNode == 0
Params == {[i |-> i, e |-> e, f |-> f, o |-> o] : i \in Is, e \in Es, f \in Fs, o \in Os}

VARIABLES now, par, lease, hasRun, lastRun,
          exN,      \* history: buckets executed by node n in this life of its process
          dupN,     \* history: buckets executed more than once by n in this life
          exAll, dupAll,   \* history: the same for the whole cluster
          failed,   \* history: a query of n failed in this life
          win,      \* the last step's pass: [n, granted, ran, start, end, at, sched, first, ok]
          faults

vars == <<now, par, lease, hasRun, lastRun, exN, dupN, exAll, dupAll, failed, win, faults>>

I   == par.i
Off == par.o
Ee  == IF par.e = 0 THEN I ELSE par.e
Ff  == IF par.f # 0 THEN par.f ELSE IF I < Ee THEN Ee ELSE I
Emin == IF Ee < I THEN Ee ELSE I
NoResample == par.e = 0 /\ par.f = 0

\* CreateContinuousQueryStatement.validate: FOR >= max(interval, EVERY)
ValidPar(p) == /\ p.i > 0 /\ p.o >= 0 /\ p.o < p.i
               /\ p.f # 0 => (p.f >= p.i /\ p.f >= p.e)

Trunc(x, d) == x - (x % d)                      \* x >= 0 is guaranteed by Now0 (ASSUME below)
Buckets(s, e) == {b \in s..(e - 1) : (b - s) % I = 0}      \* bucket starts of [s, e), s aligned

NoWin == [n |-> NoNode, granted |-> FALSE, ran |-> FALSE, start |-> 0, end |-> 0, at |-> 0, sched |-> 0, first |-> FALSE, ok |-> TRUE]

Init ==
  /\ now \in Now0
  /\ par \in {p \in Params : ValidPar(p)}
  /\ \A t \in Now0 : t >= 2 * (par.i + par.e + par.f + par.o + 2)
  /\ lease = [owner |-> NoNode, exp |-> -1]
  /\ hasRun = [n \in Nodes |-> FALSE]
  /\ lastRun = [n \in Nodes |-> 0]
  /\ exN = [n \in Nodes |-> {}] /\ dupN = [n \in Nodes |-> {}]
  /\ exAll = {} /\ dupAll = {}
  /\ failed = [n \in Nodes |-> FALSE]
  /\ win = NoWin
  /\ faults = 0

Tick == /\ now < MaxNow /\ now' = now + 1
        /\ win' = NoWin
        /\ UNCHANGED <<par, lease, hasRun, lastRun, exN, dupN, exAll, dupAll, failed, faults>>

LeaseFreeFor(n) == lease.owner \in {NoNode, n} \/ now > lease.exp

(* one timer tick / run request of node n's service at `now`; qok = the SELECT INTO succeeds *)
Run(n, qok) ==
  /\ (~qok => faults < MaxFaults)
  /\ IF ~LeaseFreeFor(n) THEN
        /\ win' = [NoWin EXCEPT !.n = n, !.at = now]
        /\ UNCHANGED <<lease, hasRun, lastRun, exN, dupN, exAll, dupAll, failed, faults>>
     ELSE
        LET first   == ~hasRun[n]
            nextRun == IF first THEN now ELSE lastRun[n] + Ee
            run     == first \/ nextRun <= now
            start   == Trunc(nextRun + I - Ff - Off - 1, I) + Off
            end     == Trunc(now + I - Emin - Off, I) + Off
            exec    == IF run /\ end > start /\ qok THEN Buckets(start, end) ELSE {}
        IN
        /\ lease' = [owner |-> n, exp |-> now + D]
        /\ IF run THEN /\ hasRun' = [hasRun EXCEPT ![n] = TRUE]
                       /\ lastRun' = [lastRun EXCEPT ![n] = Trunc(now - Off, Ee) + Off]
                  ELSE UNCHANGED <<hasRun, lastRun>>
        /\ exN' = [exN EXCEPT ![n] = @ \cup exec]
        /\ dupN' = [dupN EXCEPT ![n] = @ \cup (exN[n] \cap exec)]
        /\ exAll' = exAll \cup exec
        /\ dupAll' = dupAll \cup (exAll \cap exec)
        /\ failed' = [failed EXCEPT ![n] = @ \/ (run /\ end > start /\ ~qok)]
        /\ faults' = IF run /\ end > start /\ ~qok THEN faults + 1 ELSE faults
        /\ win' = [n |-> n, granted |-> TRUE, ran |-> run /\ end > start, start |-> start, end |-> end, at |-> now,
                   sched |-> nextRun, first |-> first, ok |-> qok]
  /\ UNCHANGED <<now, par>>

(* the process of n restarts: lastRuns is gone (the lease table is not touched: it lives in the meta leader) *)
Restart(n) ==
  /\ faults < MaxFaults /\ faults' = faults + 1
  /\ hasRun' = [hasRun EXCEPT ![n] = FALSE]
  /\ exN' = [exN EXCEPT ![n] = {}] /\ dupN' = [dupN EXCEPT ![n] = {}]
  /\ failed' = [failed EXCEPT ![n] = FALSE]
  /\ win' = NoWin
  /\ UNCHANGED <<now, par, lease, lastRun, exAll, dupAll>>

(* Service.Run("", "", t): forget lastRuns; the run request that follows is a Run(n) step.  Same effect on  *)
(* the schedule as a restart.                                                                               *)
Manual(n) == Restart(n)

Next == \/ Tick
        \/ \E n \in Nodes, qok \in BOOLEAN : Run(n, qok)
        \/ \E n \in Nodes : Restart(n)

Spec == Init /\ [][Next]_vars

----------------------------------------------------------------------------
TypeOK == /\ now \in 0..MaxNow
          /\ lease.owner \in Nodes \cup {NoNode}
          /\ \A n \in Nodes : dupN[n] \subseteq exN[n]
          /\ dupAll \subseteq exAll

X03_LeaseGuards == win.ran => (win.granted /\ lease.owner = win.n /\ lease.exp = win.at + D)

X03_NeverFuture == (win.ran /\ win.ok) => (win.end - I + Emin <= win.at /\ win.start < win.end)

X03_AtMostOnce == NoResample => \A n \in Nodes : dupN[n] = {}

Contiguous(S) == \A b1, b2 \in S : \A b \in b1..b2 : ((b - b1) % I = 0) => b \in S
\* The parameters themselves can make consecutive ON-TIME passes leave a hole: the pass at point T ends at
\* trunc(T + I - min(E,I)), the next one (T + E) starts at trunc(T + E + I - F - 1ns).  With EVERY a multiple or a
\* divisor of the interval (and for every combination the documentation shows) the second is never beyond the first;
\* with e.g. GROUP BY time(30m) RESAMPLE EVERY 45m, or time(5m) EVERY 4m, it is, and whole buckets are never
\* computed.  Known finding X01-cq-gap (known/X01.json); X03_NoGap / X03_Demand are claimed for GapFree parameters.
GapFree == \A k \in 0..I : LET T == 2 * I * Ee + Off + k * Ee
                           IN Trunc(T + Ee + I - Ff - Off - 1, I) <= Trunc(T + I - Emin - Off, I)
X03_NoGap == GapFree => \A n \in Nodes : ~failed[n] => Contiguous(exN[n])
Lead_ParamGap == \A n \in Nodes : ~failed[n] => Contiguous(exN[n])      \* violated exactly for ~GapFree parameters

\* schedule point this pass stands for
PointOf(t) == Trunc(t - Off, Ee) + Off
Aligned(b) == (b - Off) % I = 0
\* last bucket start demanded at schedule point T: with EVERY dividing the interval the bucket in progress is
\* resampled (b < T); otherwise schedule points and bucket borders do not line up and only complete buckets are
\* demanded (b + I <= T) - the bucket in progress is then covered at some points and not at others
Last(T) == IF I % Ee = 0 THEN T - 1 ELSE T - I
Demand ==
  IF ~win.first THEN {b \in (win.sched - Ff)..Last(PointOf(win.at)) : Aligned(b)}
  ELSE IF win.at = PointOf(win.at) THEN {b \in (win.at - Ff)..Last(win.at) : Aligned(b)}
  ELSE {}
X03_Demand == (GapFree /\ win.granted /\ win.ok /\ (win.first \/ win.sched <= win.at)) => Demand \subseteq Buckets(win.start, win.end)

Lead_ClusterAtMostOnce == NoResample => dupAll = {}
Lead_ClusterNoGap == (\A n \in Nodes : ~failed[n]) => Contiguous(exAll)
Lead_FailedQueryNoGap == \A n \in Nodes : Contiguous(exN[n])

Probe_Ran      == ~(win.ran /\ win.ok)
Probe_CatchUp  == ~(win.ran /\ win.ok /\ win.end - win.start > 2 * I)
Probe_Refused  == ~(win.n # NoNode /\ ~win.granted)
Probe_Takeover == ~(win.ran /\ exAll # exN[win.n])
=============================================================================
