----------------------------- MODULE LeaseGen -----------------------------
(* Behaviour generator for the replay of Lease.tla on the real code.  Every generated behaviour is a  *)
(* behaviour of Lease!Spec (the steps below are Lease's own actions, only their scheduling is          *)
(* restricted so that a real, synchronous AcquireLease call can follow it):                            *)
(*   - a call is not interleaved with anything: Send, its redirect hops and Deliver follow each other; *)
(*   GenMode = "table"   : one meta node, clock ticks, several names/nodes: replayed in REAL TIME on   *)
(*                         meta.Leases directly and through handler.serveLease + Client.AcquireLease   *)
(*                         of a one-node meta service;                                                 *)
(*   GenMode = "cluster" : three meta nodes, no ticks (the real lease duration is far longer than the  *)
(*                         scenario), leadership moves by StepDown -> Elect -> Learn* (raft leadership *)
(*                         transfer on the real cluster), followers stop/start, calls are made only when *)
(*                         every node knows the leader - or, after a final StepDown without successor, *)
(*                         to the node that knows there is none (503).                                 *)
(* A record per step: the action with its arguments and, after it, the projected state st = [now, tbl, *)
(* lead]; "resp" records carry the expected answer of the call.                                        *)
EXTENDS Lease, Sequences, Json

CONSTANTS GenLen, GenMode, TickWeight

VARIABLE hist
gvars == <<vars, hist>>

Proj == [now |-> now', lead |-> lead', tbl |-> tbl', inc |-> inc', down |-> down']
Log(rec) == hist' = Append(hist, rec @@ [st |-> Proj])

InCall == {n \in Nodes : req[n].st # "idle"}
Converged == \E L \in Meta : lead[L] = L /\ \A x \in Meta \ down : lead[x] = L
TheLeader == CHOOSE L \in Meta : lead[L] = L

GInit == /\ Init
         /\ hist = <<[a |-> "init", d |-> D, st |-> [now |-> now, lead |-> lead, tbl |-> tbl, inc |-> inc, down |-> down]]>>

\* via = the first RUNNING server of the client's list; the harness puts the stopped ones in front of it
GSend(n, l, m) == /\ m \notin down /\ Send(n, l, m) /\ Log([a |-> "send", n |-> n, name |-> l, via |-> m, skipped |-> down])
GHop(n) == /\ Handle(n) /\ Log([a |-> "hop", n |-> n])
GDeliver(n) == /\ Deliver(n)
               /\ Log([a |-> "resp", n |-> n, name |-> req[n].name, code |-> req[n].code, kind |-> req[n].kind,
                       owner |-> req[n].owner, exp |-> req[n].exp, by |-> req[n].by, hops |-> req[n].hops])
GTick(w) == /\ Tick /\ Log([a |-> "tick", w |-> w])

CallSteps == \E n \in InCall : IF req[n].st = "sent" THEN GHop(n) ELSE GDeliver(n)

TableNext ==
  \/ \E w \in 1..TickWeight : GTick(w)
  \/ \E n \in Nodes, l \in Names, m \in Meta : GSend(n, l, m)

NearEnd == Len(hist) >= GenLen - 6
ClusterNext ==
  IF SelfLeaders # {} /\ ~Converged
  THEN \E x \in Meta \ down : /\ Learn(x, TheLeader) /\ Log([a |-> "learn", m |-> x, l |-> TheLeader])
  ELSE
    \/ /\ Converged
       /\ \/ \E n \in Nodes, l \in Names, m \in Meta : GSend(n, l, m)
          \* a change of leadership (a successor can still be elected) or, near the end, a loss of the quorum
          \/ \E m \in Meta : /\ (events + 2 <= MaxEvents) \/ NearEnd
                             /\ StepDown(m) /\ Log([a |-> "stepdown", m |-> m])
          \* a follower stops (at most one at a time, at most two in a behaviour) and starts again
          \/ \E m \in Meta : /\ lead[m] # m /\ events + 3 <= MaxEvents /\ ~NearEnd
                             /\ down = {} /\ inc[m] = 0 /\ Cardinality({x \in Meta : inc[x] > 0}) < 2
                             /\ Stop(m) /\ Log([a |-> "stop", m |-> m])
          \/ \E m \in down : /\ Start(m) /\ Log([a |-> "start", m |-> m])
    \/ /\ SelfLeaders = {}
       /\ \/ \E m \in Meta : /\ lead[m] # None /\ ~NearEnd    \* successor: any node but the one that just stepped down
                             /\ Elect(m) /\ Log([a |-> "elect", m |-> m])
          \/ /\ NearEnd
             /\ \E n \in Nodes, l \in Names, m \in Meta : lead[m] = None /\ GSend(n, l, m)

GNext == /\ Len(hist) < GenLen
         /\ IF InCall # {} THEN CallSteps
            ELSE IF GenMode = "table" THEN TableNext ELSE ClusterNext

GSpec == GInit /\ [][GNext]_gvars

Emit == (Len(hist) = GenLen) => PrintT(<<"BEHAVIOUR", ToJson(hist)>>)
=============================================================================
