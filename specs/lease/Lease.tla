------------------------------- MODULE Lease -------------------------------
(* The LEASE protocol of the meta service (services/meta): data nodes ask "the" meta leader for a     *)
(* named lease (the continuous-query service asks for "continuous_querier" before every pass).        *)
(*                                                                                                    *)
(* What the code does (read from /repo, one action per step of the real call):                        *)
(*   client.go  Client.acquireLease   GET <metaServers[0]>/lease?name=..&nodeid=..  (always the FIRST   *)
(*                                    configured server; Go's http client follows 307 redirects,       *)
(*                                    at most 10)                                          -> Send     *)
(*   handler.go handler.serveLease    leader := store.leaderHTTP() (this node's raft view)             *)
(*                                      leader = self  -> leases.Acquire(name, nodeID): 200 / 409      *)
(*                                      leader = ""    -> 503 (client: ErrServiceUnavailable, retried) *)
(*                                      otherwise      -> 307 to the node it believes leads -> Handle  *)
(*   data.go    Leases.Acquire        under leases.mu:  no entry            -> new lease, exp=now+d    *)
(*                                      time.Now().After(exp) or same owner -> owner:=n, exp=now+d     *)
(*                                      otherwise                           -> error + current lease   *)
(*   handler.go newHandler            leases: NewLeases(LeaseDuration) - ONE TABLE PER META NODE, in   *)
(*                                    memory, not in the raft log: it survives a change of leadership  *)
(*                                    (stale entries) and is lost when the process restarts.           *)
(*   client.go                        the caller gets (Lease{Name,Owner,Expiration}, nil) or an error   -> Deliver *)
(*                                                                                                    *)
(* Time: one global clock `now` (ticks); every comparison is made by the granting meta node with its   *)
(* own clock, clock skew between meta nodes is not modelled.                                           *)
(*                                                                                                    *)
(* Semantic properties (X..):                                                                         *)
(*  X01  per granting meta node (one incarnation of its process) and lease name, at any instant at     *)
(*       most one node holds an unexpired lease:                                                       *)
(*         X01_TableExclusive   the validity intervals [grant, exp] handed to different owners by one  *)
(*                              table never share an instant;                                          *)
(*         X01_RefusedOnlyValid a 409 is only given to a node that is not the owner, while the         *)
(*                              owner's lease is unexpired (=> the holder may always renew, an expired *)
(*                              lease can always be taken over);                                       *)
(*         X01_GrantExtends     every 200 carries owner = requester and exp = (time of handling) + D;  *)
(*         X01_SingleHolder     with a stable leader (no leadership event, no restart) at most one     *)
(*                              node believes it holds the lease (belief = last 200 whose exp >= now). *)
(*  X02  across a change of leadership two nodes can both believe they hold the lease:                 *)
(*         X02_SingleHolder     (same formula, leadership events allowed)  EXPECTED TO BE VIOLATED -   *)
(*                              TLC's counterexample is the scenario replayed on a real 3-node cluster *)
(*         X02_OnlyAcrossGranters  two simultaneous believers always got their leases from different   *)
(*                              tables (different meta node or different incarnation);                 *)
(*         X02_OverlapBounded   (without a stale second leader) two believers exist only within D      *)
(*                              ticks after the last leadership event.                                 *)
(*  X04  availability: a node gets an answer of the protocol as long as one of its configured meta     *)
(*       servers runs:                                                                                 *)
(*         X04_EntryServerDown  a call fails at its entry server only if every meta process is down    *)
(*                              (TryAllServers = FALSE, the code as found, violates it: one stopped    *)
(*                              meta node - the first of the list - stops every continuous query).     *)
(*  The continuous-query side (X03) is in CQSched.tla.                                                 *)
EXTENDS Integers, FiniteSets, TLC

CONSTANTS Meta,        \* meta nodes (strings)
          Nodes,       \* data node ids (positive integers)
          Names,       \* lease names (strings)
          D,           \* lease duration in ticks (> 0)
          MaxNow,      \* clock bound
          MaxEvents,   \* bound on leadership events (Elect/StepDown/Stop); 0 = stable leader
          MaxHops,     \* redirects a client follows (10 in net/http; small here)
          AllowStale,  \* a deposed leader may go on believing it leads while another one was elected
          AllowRestart, \* a meta process may stop and start again (its table is lost)
          TryAllServers \* the client goes on to its next configured server when one does not answer (FALSE: the code
                        \* as found - Client.acquireLease only ever talks to metaServers[0])

None   == "none"
NoNode == 0
NoReq  == [st |-> "idle"]

VARIABLES now,      \* the clock
          lead,     \* lead[m]: who m believes the raft leader is (None: no leader known)
          inc,      \* inc[m]: incarnation of the meta process (table identity)
          tbl,      \* tbl[m][name] = [owner, exp]: handler.leases of meta node m
          req,      \* req[n]: the call in flight of data node n
          belief,   \* belief[n][name] = [exp, by, inc]: last successful answer; exp = -1: none
          maxexp,   \* history: maxexp[m][name][o] = latest exp the CURRENT incarnation of m ever gave to o (-1: none)
          events,   \* number of leadership events so far
          lastEv,   \* time of the last leadership event
          down      \* meta nodes whose process is not running

vars == <<now, lead, inc, tbl, req, belief, maxexp, events, lastEv, down>>

Free == [owner |-> NoNode, exp |-> -1]
NoBelief == [exp |-> -1, by |-> None, inc |-> 0]
SelfLeaders == {m \in Meta : lead[m] = m}

TypeOK ==
  /\ now \in 0..MaxNow
  /\ lead \in [Meta -> Meta \cup {None}]
  /\ inc \in [Meta -> 0..MaxEvents]
  /\ \A m \in Meta, l \in Names : tbl[m][l].owner \in Nodes \cup {NoNode} /\ tbl[m][l].exp \in -1..(MaxNow + D)
  /\ \A n \in Nodes : req[n].st \in {"idle", "sent", "resp"}
  /\ \A n \in Nodes, l \in Names : belief[n][l].exp \in -1..(MaxNow + D)
  /\ events \in 0..MaxEvents
  /\ down \subseteq Meta /\ \A m \in down : lead[m] = None

Init ==
  /\ now = 0
  /\ \E l0 \in Meta : lead = [m \in Meta |-> l0]      \* an established cluster: everybody knows the leader
  /\ inc = [m \in Meta |-> 0]
  /\ tbl = [m \in Meta |-> [l \in Names |-> Free]]
  /\ req = [n \in Nodes |-> NoReq]
  /\ belief = [n \in Nodes |-> [l \in Names |-> NoBelief]]
  /\ maxexp = [m \in Meta |-> [l \in Names |-> [o \in Nodes |-> -1]]]
  /\ events = 0 /\ lastEv = 0
  /\ down = {}

----------------------------------------------------------------------------
(* the clock; expiry is not an action of the code: a lease "expires" when a Tick moves now past exp  *)
Tick == /\ now < MaxNow /\ now' = now + 1
        /\ UNCHANGED <<lead, inc, tbl, req, belief, maxexp, events, lastEv, down>>

\* Expire(m,l) names the Tick that makes the entry of table m expire (for coverage / generation)
Expires(m, l) == tbl[m][l].owner # NoNode /\ tbl[m][l].exp = now

(* Leases.Acquire on the table of m, as a function: <<new entry, http code, kind>> *)
Acquire(m, l, n) ==
  LET cur == tbl[m][l] IN
  IF cur.owner = NoNode THEN <<[owner |-> n, exp |-> now + D], "ok", "new">>
  ELSE IF cur.owner = n THEN <<[owner |-> n, exp |-> now + D], "ok", "renew">>
  ELSE IF now > cur.exp THEN <<[owner |-> n, exp |-> now + D], "ok", "takeover">>
  ELSE <<cur, "conflict", "refuse">>

(* handler.serveLease at meta node m for the call of data node n (name l, after `hops` redirects) *)
Serve(n, l, m, hops) ==
  /\ IF lead[m] = m THEN
        LET a == Acquire(m, l, n) IN
        /\ tbl' = [tbl EXCEPT ![m][l] = a[1]]
        /\ req' = [req EXCEPT ![n] = [st |-> "resp", name |-> l, code |-> a[2], kind |-> a[3], owner |-> a[1].owner,
                                      exp |-> a[1].exp, by |-> m, inc |-> inc[m], hat |-> now, hops |-> hops]]
        /\ maxexp' = IF a[2] = "ok" THEN [maxexp EXCEPT ![m][l][n] = now + D] ELSE maxexp
     ELSE IF lead[m] = None THEN
        /\ req' = [req EXCEPT ![n] = [st |-> "resp", name |-> l, code |-> "unavailable", kind |-> "noleader", owner |-> NoNode,
                                      exp |-> -1, by |-> m, inc |-> inc[m], hat |-> now, hops |-> hops]]
        /\ UNCHANGED <<tbl, maxexp>>
     ELSE IF lead[m] \in down THEN      \* 307 to a process that is gone: the GET fails, acquireLease returns the error
        /\ req' = [req EXCEPT ![n] = [st |-> "resp", name |-> l, code |-> "fail", kind |-> "leaderdown", owner |-> NoNode,
                                      exp |-> -1, by |-> m, inc |-> inc[m], hat |-> now, hops |-> hops]]
        /\ UNCHANGED <<tbl, maxexp>>
     ELSE IF hops < MaxHops THEN
        /\ req' = [req EXCEPT ![n] = [st |-> "sent", name |-> l, at |-> lead[m], hops |-> hops + 1]]
        /\ UNCHANGED <<tbl, maxexp>>
     ELSE
        /\ req' = [req EXCEPT ![n] = [st |-> "resp", name |-> l, code |-> "fail", kind |-> "redirects", owner |-> NoNode,
                                      exp |-> -1, by |-> m, inc |-> inc[m], hat |-> now, hops |-> hops]]
        /\ UNCHANGED <<tbl, maxexp>>
  /\ UNCHANGED <<now, lead, inc, belief, events, lastEv, down>>

(* Client.acquireLease: GET to the client's first configured server m; nothing is decided before the    *)
(* request is served there, so sending and the first serveLease are one step                             *)
Send(n, l, m) ==
  /\ req[n] = NoReq
  /\ IF m \notin down THEN Serve(n, l, m, 0)
     ELSE \* the first configured server does not answer.  As found: the error is returned (and AcquireLease does
          \* not retry it).  TryAllServers: the client moves on - that call is Send(n, l, m2) for a running m2.
          /\ ~TryAllServers \/ Meta \subseteq down
          /\ req' = [req EXCEPT ![n] = [st |-> "resp", name |-> l, code |-> "fail", kind |-> "entrydown", owner |-> NoNode,
                                        exp |-> -1, by |-> m, inc |-> inc[m], hat |-> now, hops |-> 0,
                                        alldown |-> (Meta \subseteq down)]]
          /\ UNCHANGED <<now, lead, inc, tbl, belief, maxexp, events, lastEv, down>>
(* the redirected request arrives at the node the previous one named *)
Handle(n) == req[n].st = "sent" /\ Serve(n, req[n].name, req[n].at, req[n].hops)

(* the caller of AcquireLease gets its answer *)
Deliver(n) ==
  /\ req[n].st = "resp"
  /\ LET r == req[n] IN
     belief' = IF r.code = "ok" THEN [belief EXCEPT ![n][r.name] = [exp |-> r.exp, by |-> r.by, inc |-> r.inc]]
               ELSE IF r.code = "conflict" THEN [belief EXCEPT ![n][r.name] = NoBelief]
               ELSE belief
  /\ req' = [req EXCEPT ![n] = NoReq]
  /\ UNCHANGED <<now, lead, inc, tbl, maxexp, events, lastEv, down>>

----------------------------------------------------------------------------
(* leadership: raft is trusted to elect at most one leader per term; what matters here is each meta   *)
(* node's own view (store.leaderHTTP), because serveLease decides from it                              *)
Event == /\ events < MaxEvents /\ events' = events + 1 /\ lastEv' = now

StepDown(m) == /\ lead[m] = m /\ Event
               /\ lead' = [lead EXCEPT ![m] = None]
               /\ UNCHANGED <<now, inc, tbl, req, belief, maxexp, down>>

Elect(m) == /\ lead[m] # m /\ m \notin down /\ Event
            /\ (AllowStale \/ SelfLeaders = {})
            /\ lead' = [lead EXCEPT ![m] = m]
            /\ UNCHANGED <<now, inc, tbl, req, belief, maxexp, down>>

\* a follower learns who leads now / loses contact (no event: only routing changes)
Learn(m, l) == /\ lead[l] = l /\ m # l /\ lead[m] # l /\ m \notin down
               /\ (lead[m] = m => AllowStale)       \* a stale leader hears of its successor
               /\ lead' = [lead EXCEPT ![m] = l]
               /\ UNCHANGED <<now, inc, tbl, req, belief, maxexp, events, lastEv, down>>

Forget(m) == /\ lead[m] \notin {m, None} /\ lead[lead[m]] # lead[m]
             /\ lead' = [lead EXCEPT ![m] = None]
             /\ UNCHANGED <<now, inc, tbl, req, belief, maxexp, events, lastEv, down>>

(* the process of m stops (its lease table is gone with it) / starts again with an empty table, knowing no leader *)
Stop(m) == /\ AllowRestart /\ m \notin down /\ Event
           /\ down' = down \cup {m}
           /\ lead' = [lead EXCEPT ![m] = None]
           /\ tbl' = [tbl EXCEPT ![m] = [l \in Names |-> Free]]
           /\ maxexp' = [maxexp EXCEPT ![m] = [l \in Names |-> [o \in Nodes |-> -1]]]
           /\ UNCHANGED <<now, inc, req, belief>>

Start(m) == /\ m \in down
            /\ down' = down \ {m}
            /\ inc' = [inc EXCEPT ![m] = @ + 1]
            /\ UNCHANGED <<now, lead, tbl, req, belief, maxexp, events, lastEv>>

Next == \/ Tick
        \/ \E n \in Nodes, l \in Names, m \in Meta : Send(n, l, m)
        \/ \E n \in Nodes : Handle(n) \/ Deliver(n)
        \/ \E m \in Meta : StepDown(m) \/ Elect(m) \/ Forget(m) \/ Stop(m) \/ Start(m)
        \/ \E m, l \in Meta : Learn(m, l)

Spec == Init /\ [][Next]_vars

----------------------------------------------------------------------------
(* X01 *)
ValidNow(m, l) == {o \in Nodes : maxexp[m][l][o] >= now}
X01_TableExclusive == \A m \in Meta, l \in Names : Cardinality(ValidNow(m, l)) <= 1

X01_RefusedOnlyValid ==
  \A n \in Nodes : (req[n].st = "resp" /\ req[n].code = "conflict")
                      => (req[n].owner \notin {n, NoNode} /\ req[n].exp >= req[n].hat)

X01_GrantExtends ==
  \A n \in Nodes : (req[n].st = "resp" /\ req[n].code = "ok") => (req[n].owner = n /\ req[n].exp = req[n].hat + D)

Believers(l) == {n \in Nodes : belief[n][l].exp >= now}
SingleHolder == \A l \in Names : Cardinality(Believers(l)) <= 1
X01_SingleHolder == (events = 0) => SingleHolder
X02_SingleHolder == SingleHolder                           \* expected to be violated when MaxEvents > 0

X02_OnlyAcrossGranters ==
  \A l \in Names : \A n1, n2 \in Believers(l) :
     n1 # n2 => <<belief[n1][l].by, belief[n1][l].inc>> # <<belief[n2][l].by, belief[n2][l].inc>>

X02_OverlapBounded == \A l \in Names : Cardinality(Believers(l)) > 1 => now <= lastEv + D

(* X04: the lease service answers as long as one configured meta server runs: a call fails on its entry server *)
(* only if every meta process is down                                                                        *)
X04_EntryServerDown ==
  \A n \in Nodes : (req[n].st = "resp" /\ req[n].code = "fail" /\ req[n].kind = "entrydown") => req[n].alldown

(* the table entry and the history agree (sanity of the history variable) *)
TableInHistory == \A m \in Meta, l \in Names :
                    tbl[m][l].owner # NoNode => maxexp[m][l][tbl[m][l].owner] = tbl[m][l].exp

(* reachability probes (vacuity guards; each is expected to be VIOLATED) *)
Probe_Takeover   == \A n \in Nodes : ~(req[n].st = "resp" /\ req[n].kind = "takeover")
Probe_Renew      == \A n \in Nodes : ~(req[n].st = "resp" /\ req[n].kind = "renew")
Probe_Refuse     == \A n \in Nodes : ~(req[n].st = "resp" /\ req[n].kind = "refuse")
Probe_Redirect   == \A n \in Nodes : ~(req[n].st = "resp" /\ req[n].code = "ok" /\ req[n].hops > 0)
Probe_NoLeader   == \A n \in Nodes : ~(req[n].st = "resp" /\ req[n].code = "unavailable")
Probe_EntryDown  == \A n \in Nodes : ~(req[n].st = "resp" /\ req[n].kind = "entrydown")
Probe_StaleTable == \A n \in Nodes : ~(req[n].st = "resp" /\ req[n].kind = "refuse" /\ events > 1)
=============================================================================
