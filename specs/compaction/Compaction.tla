----------------------------- MODULE Compaction -----------------------------
(* One compaction (or cache snapshot) of a tsm1 shard - property C09.                       *)
(*                                                                                         *)
(* inputs : the TSM files handed to Compactor.CompactFull / CompactFast, oldest first        *)
(*          (generation, sequence ascending).  A file holds, per key, a sequence of blocks   *)
(*          (tsm1 index entries): ascending, non-overlapping, at most Size points each, and  *)
(*          tombstoned times per key (Tombstoner ranges).  The value of a point written by   *)
(*          file i is i, so that a reader can tell which file won.                           *)
(* cache  : for the snapshot path (Compactor.WriteSnapshot) the source is a cache: a         *)
(*          sequence of written points, later wins.                                          *)
(* The merge is specified RELATIONALLY: the output is ANY file whose content is              *)
(* LWW(inputs) - tombstones, whose keys ascend, and whose blocks per key are non-empty,      *)
(* ascending, non-overlapping and at most Limit points (Limit = Size, or the largest input   *)
(* block if that is bigger: full blocks are copied as they are).  How the real merge chunks  *)
(* is not prescribed.  The output is written block by block to a temporary file              *)
(* (Compactor.write), and only FileStore.Replace makes it live; an abort (Compactor          *)
(* disabled / closed, at any block, or detected after the last block) or a reader error      *)
(* removes the temporary file and leaves the inputs live.                                    *)
EXTENDS Integers, Sequences, FiniteSets, TLC

CONSTANTS NKeys,      \* keys are 1..NKeys, in the order of the file's index (the harness maps them to
                      \* series keys that sort the same way)
          MaxT, Size, MaxFiles,
          TombFiles,  \* which input files (by position) may carry tombstones (bounds the exhaustive runs)
          FromCache   \* TRUE: snapshot path (source = cache), FALSE: compaction of files

None == -1
Keys == 1..NKeys
Time == 0..MaxT
Modes == {"fast", "full", "optimize"}

VARIABLES inputs, cache, pc, out, written, live
vars == <<inputs, cache, pc, out, written, live>>

-----------------------------------------------------------------------------
Min(a, b) == IF a < b THEN a ELSE b
Max(a, b) == IF a > b THEN a ELSE b

\* ascending sequence of the elements of a set of integers
RECURSIVE SortedSeq(_)
SortedSeq(S) == IF S = {} THEN <<>>
                ELSE LET m == CHOOSE x \in S : \A y \in S : x <= y IN <<m>> \o SortedSeq(S \ {m})

\* all ways to cut a sequence into consecutive non-empty pieces of at most n elements
RECURSIVE Chunkings(_, _)
Chunkings(s, n) ==
  IF s = <<>> THEN {<<>>}
  ELSE UNION {{<<SubSeq(s, 1, c)>> \o rest : rest \in Chunkings(SubSeq(s, c + 1, Len(s)), n)} : c \in 1..Min(n, Len(s))}

\* a key's blocks in one file: each block is an ascending sequence of times
KeyLayouts == UNION {Chunkings(SortedSeq(S), Size) : S \in SUBSET Time}
TombOptions == {{}} \cup {lo..hi : lo \in Time, hi \in Time}     \* one deleted range (or none) per key
FileLayouts == [blocks : [Keys -> KeyLayouts], tomb : [Keys -> TombOptions]]

TimesOf(blocks) == UNION {{b[i] : i \in 1..Len(b)} : b \in {blocks[j] : j \in 1..Len(blocks)}}

\* content of file number i (its points have value i) minus its tombstones
FileContent(f, i) == [k \in Keys |-> [t \in Time |-> IF t \in TimesOf(f.blocks[k]) /\ t \notin f.tomb[k] THEN i ELSE None]]
EmptyContent == [k \in Keys |-> [t \in Time |-> None]]
Over(lo, hi) == [k \in Keys |-> [t \in Time |-> IF hi[k][t] # None THEN hi[k][t] ELSE lo[k][t]]]
RECURSIVE Lww(_, _)
Lww(fs, n) == IF n = 0 THEN EmptyContent ELSE Over(Lww(fs, n - 1), FileContent(fs[n], n))

\* content of a cache: later write wins
RECURSIVE CacheContent(_, _)
CacheContent(c, n) == IF n = 0 THEN EmptyContent
                      ELSE [CacheContent(c, n - 1) EXCEPT ![c[n][1]][c[n][2]] = c[n][3]]

SourceContent == IF FromCache THEN CacheContent(cache, Len(cache)) ELSE Lww(inputs, Len(inputs))

\* inputs are generated with blocks of at most Size points (FileLayouts), so nothing larger than
\* Size may come out (a full input block may be copied as it is)
Limit == Size

\* an output: per key a sequence of blocks, each block an ascending sequence of <<time, value>>
PointsOf(content, k) == LET ts == SortedSeq({t \in Time : content[k][t] # None})
                        IN [i \in 1..Len(ts) |-> <<ts[i], content[k][ts[i]]>>]
Outputs(content) == {o \in [Keys -> UNION {Chunkings(PointsOf(content, k), Limit) : k \in Keys}] :
                       \A k \in Keys : o[k] \in Chunkings(PointsOf(content, k), Limit)}
PointSet(o, k) == UNION {{o[k][j][i] : i \in 1..Len(o[k][j])} : j \in 1..Len(o[k])}
OutContent(o) == [k \in Keys |-> [t \in Time |->
                   IF \E p \in PointSet(o, k) : p[1] = t
                   THEN (CHOOSE p \in PointSet(o, k) : p[1] = t)[2] ELSE None]]
NBlocks(o) == LET F[i \in 0..NKeys] == IF i = 0 THEN 0 ELSE F[i - 1] + Len(o[i]) IN F[NKeys]
NoOut == [k \in Keys |-> <<>>]

\* what a reader of the file store sees
LiveContent == IF live = "output" THEN OutContent(out) ELSE SourceContent

-----------------------------------------------------------------------------
Init ==
  /\ IF FromCache
     THEN /\ inputs = <<>>
          /\ cache \in UNION {[1..n -> Keys \X Time \X (1..2)] : n \in 0..MaxFiles}
     ELSE /\ cache = <<>>
          /\ inputs \in UNION {[1..n -> FileLayouts] : n \in 1..MaxFiles}
          /\ \A i \in 1..Len(inputs) : i \notin TombFiles => \A k \in Keys : inputs[i].tomb[k] = {}
  /\ pc = "idle" /\ out = NoOut /\ written = 0 /\ live = "inputs"

\* Compactor.CompactFull / CompactFast / WriteSnapshot starts: the merge result is fixed by the
\* relation, the chunking is the implementation's choice
Begin(mode) ==
  /\ pc = "idle"
  /\ out' \in Outputs(SourceContent)
  /\ pc' = "writing" /\ written' = 0
  /\ UNCHANGED <<inputs, cache, live>>

\* Compactor.write: one more block in the temporary file
WriteBlock ==
  /\ pc = "writing" /\ written < NBlocks(out)
  /\ written' = written + 1
  /\ UNCHANGED <<inputs, cache, pc, out, live>>

\* the temporary file is complete (nothing is written when every point was deleted)
Finish ==
  /\ pc = "writing" /\ written = NBlocks(out)
  /\ pc' = "written"
  /\ UNCHANGED <<inputs, cache, out, written, live>>

\* FileStore.Replace: the output becomes live, the inputs are removed
Install ==
  /\ pc = "written"
  /\ live' = "output" /\ pc' = "done"
  /\ UNCHANGED <<inputs, cache, out, written>>

\* the compactor was disabled / closed: before a block, or noticed after the last one
Abort ==
  /\ pc \in {"writing", "written"}
  /\ pc' = "aborted" /\ written' = 0
  /\ UNCHANGED <<inputs, cache, out, live>>

\* a block of an input could not be read / decoded
ReaderError ==
  /\ ~FromCache /\ pc = "writing"
  /\ pc' = "failed" /\ written' = 0
  /\ UNCHANGED <<inputs, cache, out, live>>

Next == (\E m \in Modes : Begin(m)) \/ WriteBlock \/ Finish \/ Install \/ Abort \/ ReaderError
Spec == Init /\ [][Next]_vars

-----------------------------------------------------------------------------
TypeOK == /\ pc \in {"idle", "writing", "written", "done", "aborted", "failed"}
          /\ live \in {"inputs", "output"}
          /\ written \in 0..NBlocks(out)

\* reads never change: the live file set always has the content of the source
C09_ContentPreserved == LiveContent = SourceContent

\* the output's blocks: non-empty, at most Limit points, ascending and non-overlapping per key
BlockOK(b) == /\ Len(b) >= 1 /\ Len(b) <= Limit
              /\ \A i \in 1..(Len(b) - 1) : b[i][1] < b[i + 1][1]
C09_BlocksSortedDisjointBounded ==
  pc \in {"writing", "written", "done"} =>
    \A k \in Keys :
      /\ \A j \in 1..Len(out[k]) : BlockOK(out[k][j])
      /\ \A j \in 1..(Len(out[k]) - 1) : out[k][j][Len(out[k][j])][1] < out[k][j + 1][1][1]

\* an interrupted, aborted or failed compaction leaves the inputs live and no temporary output
C09_AbortLeavesInputs == pc \in {"aborted", "failed"} => (live = "inputs" /\ written = 0)
\* ... and the output is live only after the complete file was installed
C09_InstallOnlyComplete == live = "output" => (pc = "done" /\ written = NBlocks(out))
=============================================================================
