--------------------------- MODULE CompactionGen ---------------------------
(* Scenario generator for the replay on the real tsm1.Compactor (C09).                      *)
(* A behaviour = choose a layout of input files, then one run of the Compaction module:      *)
(*   choose -> begin(mode) -> writeblock* -> finish -> install | abort | readerror.          *)
(* Layouts are drawn BY HOW THE BLOCKS OF KEY 1 IN THE FIRST TWO FILES OVERLAP: the class is  *)
(* drawn first (single / disjoint / interleaved / nested / identical), then an instance of    *)
(* the class; chunkings are biased towards full blocks (the merge's copy-as-is path);         *)
(* tombstones none / partial / full; 1..MaxFiles files; the other keys and files are random.  *)
(* The printed record carries the inputs, the scenario, the expected content (the relation's  *)
(* only deterministic part) and the classes, which the orchestrator counts (vacuity guard).   *)
EXTENDS Compaction, Json

VARIABLES hist, scen
gvars == <<vars, hist, scen>>

\* (TLC caches constant-level subexpressions: every drawn-from set is made state-dependent)
Dyn(S) == {x \in S : Len(hist) >= 0}
Pick(S) == RandomElement(Dyn(S))

NonEmpty == (SUBSET Time) \ {{}}
MinOf(S) == CHOOSE x \in S : \A y \in S : x <= y
MaxOf(S) == CHOOSE x \in S : \A y \in S : x >= y
PairClass(A, B) ==
  IF B = {} \/ A = {} THEN "single"
  ELSE IF MaxOf(A) < MinOf(B) \/ MaxOf(B) < MinOf(A) THEN "disjoint"
  ELSE IF MinOf(A) = MinOf(B) /\ MaxOf(A) = MaxOf(B) THEN "identical"
  ELSE IF (MinOf(A) <= MinOf(B) /\ MaxOf(B) <= MaxOf(A)) \/ (MinOf(B) <= MinOf(A) /\ MaxOf(A) <= MaxOf(B)) THEN "nested"
  ELSE "interleaved"
Classes == {"single", "disjoint", "interleaved", "nested", "identical"}
PairsOf(c) == IF c = "single" THEN {<<A, {}>> : A \in NonEmpty} \cup {<<{}, A>> : A \in NonEmpty}
              ELSE {p \in NonEmpty \X NonEmpty : PairClass(p[1], p[2]) = c}
\* (a constant definition on purpose: TLC computes it once)
ClassPairs == [c \in Classes |-> PairsOf(c)]

\* greedy chunking: full blocks first, the rest in the last block
RECURSIVE Greedy(_)
Greedy(s) == IF s = <<>> THEN <<>> ELSE IF Len(s) <= Size THEN <<s>>
             ELSE <<SubSeq(s, 1, Size)>> \o Greedy(SubSeq(s, Size + 1, Len(s)))
DrawChunking(S, d) == IF Pick(1..2) = 1 \/ TLCGet(5) = 1 THEN Greedy(SortedSeq(S)) ELSE Pick(Chunkings(SortedSeq(S), Size))

\* tombstone of one key in one file: none / a range inside / everything
DrawTomb(S, d) == LET c == Pick(1..10) IN
                  IF S = {} \/ c <= 6 \/ TLCGet(5) = 1 THEN {}
                  ELSE IF c = 10 THEN 0..MaxT
                  ELSE LET lo == Pick(Time) IN lo..Pick(lo..MaxT)

\* register 1: class, 2: pair of key 1, 3: number of files, 5: flavour (1 = only full blocks, no
\* tombstones: the layouts on which the merge may copy blocks as they are)
FullSets == {S \in SUBSET Time : Cardinality(S) % Size = 0}
ClassPairsFull == [c \in Classes |-> {p \in ClassPairs[c] : p[1] \in FullSets /\ p[2] \in FullSets}]
DrawFile(i) ==
  LET times == [k \in Keys |-> IF k = 1 /\ i <= 2 THEN TLCGet(2)[i]
                               ELSE IF Pick(1..3) = 1 THEN {}
                               ELSE IF TLCGet(5) = 1 THEN Pick(FullSets) ELSE Pick(SUBSET Time)]
      tm == TLCEval(times)
  IN [blocks |-> [k \in Keys |-> DrawChunking(tm[k], k)], tomb |-> [k \in Keys |-> DrawTomb(tm[k], k)]]

NamePatterns(n) == {[i \in 1..n |-> <<i, 1>>], [i \in 1..n |-> <<1, i>>],
                    [i \in 1..n |-> IF i <= (n + 1) \div 2 THEN <<1, i>> ELSE <<2, i - (n + 1) \div 2>>],
                    [i \in 1..n |-> <<2 * i, 2>>]}

TimeSetOfFile(f, k) == TimesOf(f.blocks[k])
VisibleOfFile(f, k) == TimesOf(f.blocks[k]) \ f.tomb[k]
TombClass(fs) == IF \A i \in 1..Len(fs) : \A k \in Keys : fs[i].tomb[k] \cap TimeSetOfFile(fs[i], k) = {} THEN "none"
                 ELSE IF \E i \in 1..Len(fs) : \E k \in Keys : TimeSetOfFile(fs[i], k) # {} /\ VisibleOfFile(fs[i], k) = {} THEN "full"
                 ELSE "partial"
AllFull(fs) == \A i \in 1..Len(fs) : \A k \in Keys : \A j \in 1..Len(fs[i].blocks[k]) : Len(fs[i].blocks[k][j]) = Size
DupTimes(fs) == \E i, j \in 1..Len(fs) : i < j /\ \E k \in Keys : TimeSetOfFile(fs[i], k) \cap TimeSetOfFile(fs[j], k) # {}

ContentSeq(c) == [k \in Keys |-> PointsOf(c, k)]

GChoose ==
  /\ pc = "choose"
  /\ TLCSet(5, Pick(1..5))
  /\ TLCSet(1, Pick(Classes))
  /\ TLCSet(2, IF TLCGet(5) = 1 /\ ClassPairsFull[TLCGet(1)] # {} THEN Pick(ClassPairsFull[TLCGet(1)]) ELSE Pick(ClassPairs[TLCGet(1)]))
  /\ TLCSet(3, IF TLCGet(1) = "single" THEN Pick(1..MaxFiles) ELSE Pick(2..MaxFiles))
  /\ TLCSet(4, TLCEval([i \in 1..TLCGet(3) |-> DrawFile(i)]))
  /\ inputs' = TLCGet(4)
  /\ pc' = "idle"
  /\ scen' = [class |-> TLCGet(1), names |-> Pick(NamePatterns(TLCGet(3))), mode |-> Pick(Modes),
              fault |-> <<"none", "none", "none", "abort", "abort", "readerror">>[Pick(1..6)], at |-> Pick(0..4)]
  /\ hist' = <<"choose">>
  /\ UNCHANGED <<cache, out, written, live>>

GCacheChoose ==
  /\ pc = "choose"
  /\ TLCSet(5, 0)
  /\ TLCSet(3, Pick(0..MaxFiles))
  /\ TLCSet(4, TLCEval([i \in 1..TLCGet(3) |-> <<Pick(Keys), Pick(Time), Pick(1..2)>>]))
  /\ cache' = TLCGet(4)
  /\ pc' = "idle"
  /\ scen' = [class |-> "cache", names |-> <<>>, mode |-> "snapshot",
              fault |-> <<"none", "none", "none", "abort">>[Pick(1..4)], at |-> Pick(0..4)]
  /\ hist' = <<"choose">>
  /\ UNCHANGED <<inputs, out, written, live>>

Step(name, A) == A /\ hist' = Append(hist, name) /\ UNCHANGED scen

\* follow the scenario: fault = abort / readerror after `at` blocks (or when everything is written)
GNext ==
  \/ IF FromCache THEN GCacheChoose ELSE GChoose
  \* (the generator follows one member of the relation, the greedy chunking; Begin allows every one)
  \/ /\ pc = "idle" /\ out' = [k \in Keys |-> Greedy(PointsOf(SourceContent, k))]
     /\ pc' = "writing" /\ written' = 0 /\ UNCHANGED <<inputs, cache, live>>
     /\ hist' = Append(hist, "begin") /\ UNCHANGED scen
  \/ /\ pc = "writing" /\ written < NBlocks(out) /\ (scen.fault = "none" \/ written < scen.at)
     /\ Step("writeblock", WriteBlock)
  \/ /\ pc = "writing" /\ scen.fault = "abort" /\ (written >= scen.at \/ written = NBlocks(out))
     /\ Step("abort", Abort)
  \/ /\ pc = "writing" /\ scen.fault = "readerror" /\ (written >= scen.at \/ written = NBlocks(out))
     /\ Step("readerror", ReaderError)
  \/ /\ scen.fault = "none" /\ Step("finish", Finish)
  \/ Step("install", Install)

GInit == /\ inputs = <<>> /\ cache = <<>> /\ pc = "choose" /\ out = NoOut /\ written = 0 /\ live = "inputs"
         /\ hist = <<>> /\ scen = [class |-> "", names |-> <<>>, mode |-> "", fault |-> "", at |-> 0]
GSpec == GInit /\ [][GNext]_gvars

FileJ(f) == [blocks |-> f.blocks, tomb |-> [k \in Keys |-> SortedSeq(f.tomb[k])]]
Record == [inputs |-> [i \in 1..Len(inputs) |-> FileJ(inputs[i])], cache |-> cache, scen |-> scen, size |-> Size,
           steps |-> hist, outcome |-> pc, live |-> live,
           content |-> ContentSeq(SourceContent),
           tombclass |-> IF FromCache THEN "none" ELSE TombClass(inputs),
           allfull |-> IF FromCache THEN FALSE ELSE AllFull(inputs),
           dup |-> IF FromCache THEN FALSE ELSE DupTimes(inputs)]
Emit == (pc \in {"done", "aborted", "failed"}) => PrintT(<<"BEHAVIOUR", ToJson(Record)>>)
=============================================================================
