---------------------------- MODULE AuthCacheGen ----------------------------
(* Behaviour generator for the credential-cache interleavings.  BFS with `hist`   *)
(* in the state = every interleaving of the Authenticate steps of the calls with  *)
(* the changes (and, when ~Atomic, their installs) within the bounds.  One step   *)
(* = one gate release / one command of the sequential driver.  A behaviour is     *)
(* printed when every call has returned.                                          *)
EXTENDS AuthCache, Json

VARIABLE hist
gvars == <<vars, hist>>

\* projection of the node after the step (what the harness can read from the real client)
Proj == [exists |-> node'.exists, admin |-> node'.admin, rd |-> node'.rd,
         cached |-> cache'.has, fresh |-> cache'.has /\ node'.exists /\ cache'.hv = node'.hv]
Log(rec) == hist' = Append(hist, rec @@ [st |-> Proj])
Running == \E c \in Calls : call[c].pc # "done"
\* observations of a call that returns in this step
Ret(c) == [fin |-> call'[c].pc = "done", res |-> call'[c].res,
           admin |-> call'[c].u.admin, rd |-> call'[c].u.rd,
           legit |-> call'[c].pw \in okPw'[c], okviews |-> okView'[c]]

GChange(k, p) == /\ Change(k, p) /\ Log([a |-> "change", kind |-> k, pw |-> p, inst |-> Atomic])
GInstall == /\ Running /\ Install /\ Log([a |-> "install"])
GStart(c, p) == /\ Start(c, p) /\ Log([a |-> "start", c |-> c, pw |-> p] @@ Ret(c))
GCheck(c) == /\ Check(c) /\ Log([a |-> "check", c |-> c] @@ Ret(c))
GInsert(c) == /\ Insert(c) /\ Log([a |-> "insert", c |-> c] @@ Ret(c))

GInit == Init /\ hist = <<>>
GNext == \/ \E k \in Kinds, p \in Pws : GChange(k, p)
         \/ GInstall
         \/ \E c \in Calls : (\E p \in Pws : GStart(c, p)) \/ GCheck(c) \/ GInsert(c)
GSpec == GInit /\ [][GNext]_gvars

Emit == (~Running) => PrintT(<<"BEHAVIOUR", ToJson(hist)>>)
=============================================================================
