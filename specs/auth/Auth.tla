-------------------------------- MODULE Auth --------------------------------
(***************************************************************************)
(* C16 - requests run only with valid credentials and sufficient grants.   *)
(*                                                                         *)
(* One HTTP request against a node with authentication enabled:            *)
(*   Authn  (services/httpd/handler.go authenticate: AdminUserExists,      *)
(*           parseCredentials, MetaClient.Authenticate / JWT + User)       *)
(*   Authz  (serveQuery -> meta.QueryAuthorizer.AuthorizeQuery for the     *)
(*           whole query up front; serveWrite -> WriteAuthorizer)          *)
(*   Exec(i) (query.Executor hands statement i to the StatementExecutor /  *)
(*           the PointsWriter is called)                                   *)
(* over every world (no user yet / users but no admin / normal), every     *)
(* user (admin flag x grant per database), every credential case and every *)
(* operation.                                                              *)
(*                                                                         *)
(* TWO tables are kept apart on purpose:                                   *)
(*  - `needs`  : what a statement does, i.e. which database it reads or    *)
(*               writes, or that it is an administrative statement.  This  *)
(*               is the ORACLE (Allowed).  It is written from the InfluxDB *)
(*               1.8 authentication/authorization documentation ("admin    *)
(*               users: CREATE/DROP DATABASE, retention-policy, user and   *)
(*               subscription management, SHOW USERS/GRANTS/STATS/...;     *)
(*               non-admin users: READ, WRITE or ALL per database") and    *)
(*               from the InfluxQL reference for what each statement       *)
(*               touches (ON <db>, <db>.<rp>.<measurement> in FROM/INTO).  *)
(*  - `code`/`weak` : what the implementation demands (influxql            *)
(*               RequiredPrivileges + AuthorizeQuery).  Where it demands   *)
(*               less than `needs`, the difference is a recorded deviation *)
(*               (guarded by  dev \in Dev);  where it demands more         *)
(*               (DROP MEASUREMENT: admin) `code` says so.                 *)
(*                                                                         *)
(* Calibrated ONCE against influxql.RequiredPrivileges on the unchanged    *)
(* tree and frozen here, because the documentation lists these statements  *)
(* only under "admin users have access to" without saying what a non-admin *)
(* user needs:                                                             *)
(*   DROP SERIES, DELETE                  -> WRITE on the default database *)
(*   DROP RETENTION POLICY, DROP CONTINUOUS QUERY -> WRITE on the ON db    *)
(*   SHOW CONTINUOUS QUERIES, SHOW QUERIES, SHOW SERVERS                   *)
(*                                        -> READ on the default database  *)
(*   a statement without database (no ON, no db param) is not covered by   *)
(*   any grant (only admins run it).                                       *)
(***************************************************************************)
EXTENDS Integers, Sequences, FiniteSets, TLC

CONSTANTS Dev,       \* enabled recorded deviations, subset of DevNames
          Family,    \* "A": every operation x {valid basic, none};  "B": representative operations x every credential case;
                     \* "W": small witness family
          PairMode   \* "none" | "partner" | "full": which multi-statement requests are included

Db == {"d1", "d2"}
Privs == {"none", "read", "write", "all"}
PrivSeq == <<"none", "read", "write", "all">>
DevNames == {"cardNoPriv", "cardFromDefault", "fromDbDefault", "cqWeak", "firstAdminMulti"}

\* canonical user order (the harness uses the same indexing): i-1 = admin*16 + priv(d1)*4 + priv(d2)
NUsers == 32
U(i) == [admin |-> ((i - 1) \div 16) = 1,
         priv |-> [d \in Db |-> IF d = "d1" THEN PrivSeq[(((i - 1) \div 4) % 4) + 1] ELSE PrivSeq[((i - 1) % 4) + 1]]]

-----------------------------------------------------------------------------
\* needs
DFL == "default"
ADMIN == [p |-> "admin", t |-> "-"]
R(t) == [p |-> "read", t |-> t]
W(t) == [p |-> "write", t |-> t]

St(cls, form, a, b, needs) ==
  [cls |-> cls, form |-> form, a |-> a, b |-> b, needs |-> needs, code |-> needs, weak |-> needs, dev |-> ""]
StDev(cls, form, a, b, needs, weak, dev) ==
  [cls |-> cls, form |-> form, a |-> a, b |-> b, needs |-> needs, code |-> needs, weak |-> weak, dev |-> dev]
StStrict(cls, form, a, b, needs, code) ==
  [cls |-> cls, form |-> form, a |-> a, b |-> b, needs |-> needs, code |-> code, weak |-> code, dev |-> ""]

AdminClasses == {"AlterRetentionPolicy", "CreateDatabase", "CreateRetentionPolicy", "CreateSubscription",
                 "DropDatabase", "DropShard", "DropSubscription", "DropUser", "Grant", "GrantAdmin", "KillQuery",
                 "Revoke", "RevokeAdmin", "SetPasswordUser", "ShowDiagnostics", "ShowGrantsForUser",
                 "ShowShardGroups", "ShowShards", "ShowStats", "ShowSubscriptions", "ShowUsers"}
DefaultReadClasses == {"ShowContinuousQueries", "ShowQueries", "ShowServers"}
ReadOnClasses == {"ShowFieldKeys", "ShowSeries", "ShowTagKeys", "ShowTagValues", "ShowMeasurements",
                  "ShowRetentionPolicies", "ShowSeriesCardinality", "ShowMeasurementCardinality"}
\* cardinality statements whose privileges the implementation derives from the FROM clause only
CardFromClasses == {"ShowTagKeyCardinality", "ShowFieldKeyCardinality", "ShowTagValuesCardinality"}
\* cardinality statements that do so only for EXACT
CardExactClasses == {"ShowSeriesCardinality", "ShowMeasurementCardinality"}

Stmts ==
     {St(c, "plain", "-", "-", {ADMIN}) : c \in AdminClasses}
  \cup {St("CreateUser", f, "-", "-", {ADMIN}) : f \in {"plain", "admin"}}
  \cup {St("ShowDatabases", "plain", "-", "-", {})}
  \cup {St(c, "default", "-", "-", {R(DFL)}) : c \in DefaultReadClasses \cup ReadOnClasses}
  \cup {St(c, "on", a, "-", {R(a)}) : c \in ReadOnClasses, a \in Db}
  \cup {St("ShowMeasurements", "on_rp", a, "-", {R(a)}) : a \in Db}
  \* SHOW MEASUREMENTS ON *.* is admitted with READ on the default database; which databases it may
  \* list is the subject of C16_ListingOnlyGranted below (result filtering, like SHOW DATABASES)
  \cup {St("ShowMeasurements", "wild", "-", "-", {R(DFL)})}
  \* a database-qualified measurement in FROM is what the rewritten statement reads
  \* (query/statement_rewriter.go rewriteSources); the implementation demands READ on the ON/default
  \* database instead: recorded deviation fromDbDefault (F23)
  \cup {StDev(c, "from", a, "-", {R(a)}, {R(DFL)}, "fromDbDefault") : c \in {"ShowFieldKeys", "ShowSeries"}, a \in Db}
  \* cardinality statements read the ON / default database also when they have no FROM clause; the
  \* implementation derives their privileges from the FROM clause alone: none at all without FROM
  \* (cardNoPriv, F21), the default database instead of the ON database with it (cardFromDefault, F22)
  \cup {StDev(c, "default", "-", "-", {R(DFL)}, {}, "cardNoPriv") : c \in CardFromClasses}
  \cup {StDev(c, f, a, "-", {R(a)}, {}, "cardNoPriv") : c \in CardFromClasses, f \in {"on", "exact_on"}, a \in Db}
  \cup {StDev(c, "on_from", a, "-", {R(a)}, {R(DFL)}, "cardFromDefault") : c \in CardFromClasses, a \in Db}
  \cup {StDev(c, "exact_default", "-", "-", {R(DFL)}, {}, "cardNoPriv") : c \in CardExactClasses}
  \cup {StDev(c, "exact_on", a, "-", {R(a)}, {}, "cardNoPriv") : c \in CardExactClasses, a \in Db}
  \cup {StDev(c, "exact_on_from", a, "-", {R(a)}, {R(DFL)}, "cardFromDefault") : c \in CardExactClasses, a \in Db}
  \cup {St(c, "default", "-", "-", {R(DFL)}) : c \in {"Select", "Explain"}}
  \cup {St(c, f, a, "-", {R(a)}) : c \in {"Select"}, f \in {"from", "subq"}, a \in Db}
  \cup {St("Explain", f, a, "-", {R(a)}) : f \in {"from", "analyze_from"}, a \in Db}
  \cup {St("Select", "from2", a, b, {R(a), R(b)}) : a \in Db, b \in Db}
  \cup {St("Select", "into_default", "-", "-", {R(DFL), W(DFL)})}
  \cup {St("Select", "into", a, b, {R(a), W(b)}) : a \in Db, b \in Db}
  \cup {St("Select", "into_mixed", a, "-", {R(DFL), W(a)}) : a \in Db}
  \* one statement that MIXES explicit and default databases, in both orders: every privilege is needed on the
  \* database that part of the statement really reads / writes (an unqualified measurement = the default database)
  \cup {St("Select", f, a, "-", {R(a), R(DFL)}) : f \in {"from_mixed", "from_mixed_rev", "subq_mixed", "subq_mixed_rev", "subq_inner_dfl"}, a \in Db}
  \cup {St("Select", "into_dfl_from", a, "-", {R(a), W(DFL)}) : a \in Db}
  \cup {St("Select", "into_from_mixed", a, b, {R(a), R(DFL), W(b)}) : a \in Db, b \in Db}
  \cup {St("Explain", f, a, "-", {R(a), R(DFL)}) : f \in {"from_mixed", "from_mixed_rev"}, a \in Db}
  \cup {St(c, "default", "-", "-", {W(DFL)}) : c \in {"DeleteSeries", "DropSeries", "Delete"}}
  \cup {St("DeleteSeries", "where", "-", "-", {W(DFL)})}
  \cup {St(c, "on", a, "-", {W(a)}) : c \in {"DropContinuousQuery", "DropRetentionPolicy"}, a \in Db}
  \* DROP MEASUREMENT removes data of the default database; the implementation demands admin (stricter)
  \cup {StStrict("DropMeasurement", "default", "-", "-", {W(DFL)}, {ADMIN})}
  \* a continuous query reads its sources and writes its target for ever, without a user; the
  \* implementation demands READ on the ON database only: recorded deviation cqWeak (F25)
  \cup {StDev("CreateContinuousQuery", "on", a, "-", {R(a), W(a)}, {R(a)}, "cqWeak") : a \in Db}
  \cup {St("CreateContinuousQuery", "on_into", a, b, {R(a), W(b)}) : a \in Db, b \in Db}
  \cup {StDev("CreateContinuousQuery", "on_from", a, b, {R(b), W(a)}, {R(a)}, "cqWeak") : a \in Db, b \in Db}

Classes == {s.cls : s \in Stmts}
CodeReq(s) == IF s.dev # "" /\ s.dev \in Dev THEN s.weak ELSE s.code

IsCreateAdmin(s) == s.cls = "CreateUser" /\ s.form = "admin"
Benign == CHOOSE s \in Stmts : s.cls = "ShowDatabases"
Sig(s) == <<s.needs, s.code, s.weak, s.dev, IsCreateAdmin(s)>>
Sigs == {Sig(s) : s \in Stmts}
RepStmts == {CHOOSE s \in Stmts : Sig(s) = g : g \in Sigs}

Q(ss) == [kind |-> "query", stmts |-> ss, db |-> "-"]
SingleOps == {Q(<<s>>) : s \in Stmts}
PartnerOps == {Q(<<s, Benign>>) : s \in Stmts} \cup {Q(<<Benign, s>>) : s \in Stmts}
FullPairOps == {Q(<<s, t>>) : s \in RepStmts, t \in RepStmts}
WriteOps == {[kind |-> "write", stmts |-> <<>>, db |-> d] : d \in Db}
RepOps == {Q(<<s>>) : s \in RepStmts} \cup WriteOps
          \cup (IF PairMode # "none" THEN {Q(<<s, Benign>>) : s \in RepStmts} \cup {Q(<<Benign, s>>) : s \in RepStmts} ELSE {})

\* "W": a small family for the non-vacuity witnesses: the statements with a recorded deviation, and the writes
WitnessOps == {Q(<<s>>) : s \in {s \in Stmts : s.dev # "" \/ s.cls \in {"CreateUser", "ShowDatabases", "DropDatabase"}}}
              \cup {Q(<<s, Benign>>) : s \in {s \in Stmts : s.cls = "CreateUser"}} \cup WriteOps
Ops == IF Family = "B" THEN RepOps
       ELSE IF Family = "W" THEN WitnessOps
       ELSE SingleOps \cup WriteOps
            \cup (IF PairMode \in {"partner", "full"} THEN PartnerOps ELSE {})
            \cup (IF PairMode = "full" THEN FullPairOps ELSE {})

-----------------------------------------------------------------------------
\* credentials
ValidCC == {"basic:valid", "query:valid", "token:valid", "bearer:valid"}
AllCC == ValidCC \cup {"none", "basic:wrongpw", "basic:unknown", "basic:emptypw", "query:wrongpw", "query:unknown",
                       "token:wrongpw", "token:unknown", "bearer:unknown", "bearer:badsig", "bearer:expired",
                       "bearer:noexp", "bearer:nouser"}
CCs == IF Family = "B" THEN AllCC ELSE {"basic:valid", "none"}
Worlds == {"noUsers", "noAdmin", "normal"}
DDbs == Db \cup {"-"}

\* a case = one request in one world.  In world noUsers the user index is irrelevant (fixed to 1);
\* in world noAdmin only non-admin users exist.
CaseOK(c) == /\ (c.world = "noUsers" => c.ui = 1)
             /\ (c.world = "noAdmin" => ~U(c.ui).admin)
             /\ (c.op.kind = "write" => c.ddb = "-")
Cases == {c \in [world : Worlds, ui : 1..NUsers, cc : CCs, op : Ops, ddb : DDbs] : CaseOK(c)}

Target(n, ddb) == IF n.t = DFL THEN ddb ELSE n.t
Has(u, p, d) == d \in Db /\ (u.priv[d] = p \/ u.priv[d] = "all")
CoveredNeed(u, n, ddb) == n.p # "admin" /\ Has(u, n.p, Target(n, ddb))
Range(f) == {f[i] : i \in DOMAIN f}

\* ---- the oracle: the property statement
Allowed(c) ==
  LET u == U(c.ui) IN
  IF c.world = "noUsers"
  THEN c.op.kind = "query" /\ Len(c.op.stmts) = 1 /\ IsCreateAdmin(c.op.stmts[1])
  ELSE /\ c.cc \in ValidCC
       /\ \/ u.admin
          \/ /\ c.op.kind = "write"
             /\ Has(u, "write", c.op.db)
          \/ /\ c.op.kind = "query"
             /\ \A s \in Range(c.op.stmts) : \A n \in s.needs : CoveredNeed(u, n, c.ddb)

\* ---- the implementation
\* authenticate(): only enforced when an admin user exists
AuthN(c) == IF c.world # "normal" THEN "anon"
            ELSE IF c.cc \in ValidCC THEN "user" ELSE "reject"

\* AuthorizeQuery / AuthorizeWrite with deviation set D
Grants(c, D) ==
  LET u == U(c.ui)
      req(s) == IF s.dev # "" /\ s.dev \in D THEN s.weak ELSE s.code IN
  IF c.op.kind = "write"
  THEN AuthN(c) = "user" /\ (u.admin \/ Has(u, "write", c.op.db))
  ELSE IF c.world = "noUsers"
       THEN /\ Len(c.op.stmts) > 0
            /\ IsCreateAdmin(c.op.stmts[1])
            /\ (Len(c.op.stmts) = 1 \/ "firstAdminMulti" \in D)
       ELSE /\ AuthN(c) = "user"
            /\ \/ u.admin
               \/ \A s \in Range(c.op.stmts) : \A n \in req(s) : CoveredNeed(u, n, c.ddb)

NExec(c) == IF c.op.kind = "write" THEN 1 ELSE Len(c.op.stmts)
OutcomeD(c, D) ==
  IF AuthN(c) = "reject" THEN [st |-> 401, ex |-> 0]
  ELSE IF ~Grants(c, D) THEN [st |-> 403, ex |-> 0]
  ELSE [st |-> IF c.op.kind = "write" THEN 204 ELSE 200, ex |-> NExec(c)]
Outcome(c) == OutcomeD(c, Dev)
\* deviations that can make this case run although it is not allowed
Taint(c) == {s.dev : s \in {s \in Range(c.op.stmts) : s.dev \in Dev}}
            \cup (IF c.world = "noUsers" /\ Len(c.op.stmts) > 1 /\ "firstAdminMulti" \in Dev THEN {"firstAdminMulti"} ELSE {})

-----------------------------------------------------------------------------
VARIABLES case, pc, principal, status, executed
vars == <<case, pc, principal, status, executed>>

Init == /\ case \in Cases
        /\ pc = "authn" /\ principal = "-" /\ status = 0 /\ executed = {}

Authn == /\ pc = "authn"
         /\ principal' = AuthN(case)
         /\ IF AuthN(case) = "reject" THEN pc' = "done" /\ status' = 401
            ELSE pc' = "authz" /\ status' = status
         /\ UNCHANGED <<case, executed>>

Authz == /\ pc = "authz"
         /\ IF Grants(case, Dev) THEN pc' = "exec" /\ status' = status
            ELSE pc' = "done" /\ status' = 403
         /\ UNCHANGED <<case, principal, executed>>

\* statements are handed to the executor in order; a write is one call of the points writer
Exec == /\ pc = "exec"
        /\ LET i == Cardinality(executed) + 1 IN
           /\ executed' = executed \cup {i}
           /\ IF i = NExec(case)
              THEN pc' = "done" /\ status' = (IF case.op.kind = "write" THEN 204 ELSE 200)
              ELSE pc' = "exec" /\ status' = status
        /\ UNCHANGED <<case, principal>>

Next == Authn \/ Authz \/ Exec
Spec == Init /\ [][Next]_vars

TypeOK == /\ case \in Cases
          /\ pc \in {"authn", "authz", "exec", "done"}
          /\ principal \in {"-", "anon", "user", "reject"}
          /\ status \in {0, 200, 204, 401, 403}
          /\ executed \subseteq 1..2

\* ---- properties
\* with the recorded deviations: whatever runs is allowed, or the repaired implementation would not run it
C16_ExecutedOnlyIfAllowed ==
  executed # {} => (Allowed(case) \/ (Taint(case) # {} /\ OutcomeD(case, {}).ex = 0))
\* without deviations (Dev = {}) nothing that is not allowed runs
C16_ExecutedOnlyIfAllowedStrict == executed # {} => Allowed(case)
C16_FirstAdminOnly ==
  (case.world = "noUsers" /\ executed # {}) =>
     /\ case.op.kind = "query" /\ IsCreateAdmin(case.op.stmts[1])
     /\ (Len(case.op.stmts) = 1 \/ "firstAdminMulti" \in Dev)
C16_RejectedNeverRuns == (principal \in {"reject"} \/ status \in {401, 403}) => executed = {}
\* the one-shot function used by the generator agrees with the step-wise model
OutcomeAgrees == pc = "done" => [st |-> status, ex |-> Cardinality(executed)] = Outcome(case)
\* ---- statements that list across databases ("SHOW DATABASES special"): the request itself needs little,
\* the RESULT only mentions databases the user holds a grant on.  Documentation: "non-admin users can
\* SHOW the databases on which they have READ and/or WRITE permissions".  Measurement names are data:
\* READ is needed.
VisibleDbs(u) == {d \in Db : u.admin \/ u.priv[d] # "none"}
ReadableDbs(u) == {d \in Db : u.admin \/ Has(u, "read", d)}
\* implementation: coordinator/statement_executor.go filters with the coarse authorizer
ListedDbs(u, what) == IF what = "measurements" THEN ReadableDbs(u) ELSE VisibleDbs(u)
MayList(u, what) == IF what = "measurements" THEN ReadableDbs(u) ELSE VisibleDbs(u)
C16_ListingOnlyGranted ==
  \A i \in 1..NUsers : \A what \in {"databases", "cqs", "measurements"} : ListedDbs(U(i), what) \subseteq MayList(U(i), what)

\* non-vacuity witnesses (checked as "must be violated" by the orchestrator)
NeverRuns == executed = {}
NeverTainted == ~(executed # {} /\ ~Allowed(case))
=============================================================================
