------------------------------ MODULE AuthGen ------------------------------
(* Case generator for the C16 matrix.  One printed line per group                *)
(*   (world, credential case, operation, default database)                       *)
(* with, for every user of the canonical order, the expected outcome of the      *)
(* implementation model (status, number of statements handed to the executor)    *)
(* and the oracle's verdict:  code = status*100 + executed*10 + allowed.         *)
(* -1 = this user does not exist in that world.                                  *)
(* Outcome() is tied to the step-wise model by invariant OutcomeAgrees of Auth.  *)
EXTENDS Auth, Json

VARIABLE g
gvars == <<vars, g>>

Groups == {x \in [world : Worlds, cc : CCs, op : Ops, ddb : DDbs] : (x.op.kind = "write" => x.ddb = "-")}
CaseOf(x, i) == [world |-> x.world, ui |-> i, cc |-> x.cc, op |-> x.op, ddb |-> x.ddb]
UsersOf(x) == IF x.world = "noUsers" THEN {1} ELSE IF x.world = "noAdmin" THEN 1..16 ELSE 1..NUsers
Code(c) == LET o == Outcome(c) IN o.st * 100 + o.ex * 10 + (IF Allowed(c) THEN 1 ELSE 0)
Line(x) == [world |-> x.world, cc |-> x.cc, ddb |-> x.ddb, kind |-> x.op.kind, db |-> x.op.db,
            stmts |-> [i \in 1..Len(x.op.stmts) |->
                         [cls |-> x.op.stmts[i].cls, form |-> x.op.stmts[i].form,
                          a |-> x.op.stmts[i].a, b |-> x.op.stmts[i].b,
                          dev |-> IF x.op.stmts[i].dev \in Dev THEN x.op.stmts[i].dev ELSE ""]],
            devs |-> Taint(CaseOf(x, 1)), principal |-> AuthN(CaseOf(x, 1)),
            codes |-> [i \in 1..NUsers |-> IF i \in UsersOf(x) THEN Code(CaseOf(x, i)) ELSE 0 - 1]]

GInit == /\ g \in Groups
         /\ case = CaseOf(g, 1) /\ pc = "done" /\ principal = "-" /\ status = 0 /\ executed = {}
GNext == UNCHANGED gvars
GSpec == GInit /\ [][GNext]_gvars

\* every line carries its kind in field k; the class list of the model (for the unclassified-statement
\* guard) and the expected listings per user are printed once, with the first group
IsFirst(x) == x.world = "noUsers" /\ x.cc = "none" /\ x.op.kind = "write" /\ x.op.db = "d1"
Listing == [i \in 1..NUsers |->
             [vis |-> ListedDbs(U(i), "databases"), cqs |-> ListedDbs(U(i), "cqs"), meas |-> ListedDbs(U(i), "measurements"),
              mayvis |-> MayList(U(i), "databases"), maymeas |-> MayList(U(i), "measurements")]]
Emit == /\ PrintT(<<"CASE", ToJson([k |-> "case"] @@ Line(g))>>)
        /\ (IsFirst(g) => /\ PrintT(<<"CASE", ToJson([k |-> "classes", classes |-> Classes])>>)
                          /\ PrintT(<<"CASE", ToJson([k |-> "listing", users |-> Listing])>>))
=============================================================================
