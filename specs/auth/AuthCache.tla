------------------------------ MODULE AuthCache ------------------------------
(***************************************************************************)
(* C16, history part: the credential cache of a node (meta.Client).        *)
(*                                                                         *)
(* One user.  `srv` is the user's record at the meta servers, `node` the   *)
(* copy the node has received (Client.cacheData), `cache` the node's       *)
(* authCache entry for the user: the password it was filled with and the   *)
(* bcrypt hash (version) that password was checked against.                *)
(*                                                                         *)
(* Client.Authenticate is three critical sections:                         *)
(*   Start   userInfo := c.data().user(name)          (RLock, snapshot)    *)
(*   Check   au := c.authCache[name] (RLock); salted-hash compare; on a    *)
(*           miss bcrypt.CompareHashAndPassword(userInfo.Hash, password)   *)
(*   Insert  c.authCache[name] = {.., bhash: userInfo.Hash}   (Lock)       *)
(* interleaved with                                                        *)
(*   Change  a command committed at the meta servers (SetPassword, Drop,   *)
(*           Create, Grant/Revoke, SetAdmin)                               *)
(*   Install pollForUpdates: cacheData = snapshot; updateAuthCache()       *)
(*           drops the entry unless its bhash equals the user's hash       *)
(*                                                                         *)
(* CodeOpts describes the implementation variant:                          *)
(*   "bhashOnLookup": Check accepts a cache entry only if its bhash equals *)
(*   the hash of the user record read in Start (the repair of F17).        *)
(* Without it the model reproduces F17: an Authenticate that read the old  *)
(* record inserts, after the Install, an entry for the old password that   *)
(* later calls accept.                                                     *)
(***************************************************************************)
EXTENDS Integers, Sequences, FiniteSets, TLC

CONSTANTS Calls,      \* call ids, a set of integers 1..n (started in increasing order: symmetry)
          Pws,        \* passwords
          InitPw,     \* the user's password in the initial state
          Kinds,      \* change kinds allowed: subset of {"setpw","drop","create","revoke","grant","admin","unadmin"}
          MaxChanges, \* bound on the number of changes
          Atomic,     \* TRUE: every change is installed at the node at once (what a client observes of its own command)
          CodeOpts    \* implementation variant, see above

VARIABLES srv, node, cache, nextHv, nchg, call, okPw, okView
vars == <<srv, node, cache, nextHv, nchg, call, okPw, okView>>

NoUser == [exists |-> FALSE, pw |-> "-", hv |-> 0, admin |-> FALSE, rd |-> FALSE]
NoEntry == [has |-> FALSE, pw |-> "-", hv |-> 0]
IdleCall == [pc |-> "idle", pw |-> "-", u |-> NoUser, res |-> "-"]
View(u) == [admin |-> u.admin, rd |-> u.rd]
InFlight(c) == call[c].pc \in {"gotUser", "needInsert"}

Init == /\ srv = [exists |-> TRUE, pw |-> InitPw, hv |-> 1, admin |-> FALSE, rd |-> TRUE]
        /\ node = srv
        /\ cache = NoEntry
        /\ nextHv = 2 /\ nchg = 0
        /\ call = [c \in Calls |-> IdleCall]
        /\ okPw = [c \in Calls |-> {}]
        /\ okView = [c \in Calls |-> {}]

\* ---- changes at the meta servers
ChangeTo(kind, p) ==
  CASE kind = "setpw"   -> IF srv.exists THEN [srv EXCEPT !.pw = p, !.hv = nextHv] ELSE srv
    [] kind = "drop"    -> IF srv.exists THEN NoUser ELSE srv
    [] kind = "create"  -> IF ~srv.exists THEN [exists |-> TRUE, pw |-> p, hv |-> nextHv, admin |-> FALSE, rd |-> FALSE] ELSE srv
    [] kind = "revoke"  -> IF srv.exists /\ srv.rd THEN [srv EXCEPT !.rd = FALSE] ELSE srv
    [] kind = "grant"   -> IF srv.exists /\ ~srv.rd THEN [srv EXCEPT !.rd = TRUE] ELSE srv
    [] kind = "admin"   -> IF srv.exists /\ ~srv.admin THEN [srv EXCEPT !.admin = TRUE] ELSE srv
    [] kind = "unadmin" -> IF srv.exists /\ srv.admin THEN [srv EXCEPT !.admin = FALSE] ELSE srv

\* what Install does to the node, given the record that arrives
Installed(rec) ==
  /\ node' = rec
  /\ cache' = IF cache.has /\ rec.exists /\ cache.hv = rec.hv THEN cache ELSE NoEntry
  /\ okPw' = [c \in Calls |-> IF InFlight(c) /\ rec.exists THEN okPw[c] \cup {rec.pw} ELSE okPw[c]]
  /\ okView' = [c \in Calls |-> IF InFlight(c) /\ rec.exists THEN okView[c] \cup {View(rec)} ELSE okView[c]]

Change(kind, p) ==
  /\ nchg < MaxChanges
  /\ kind \in Kinds
  /\ \E c \in Calls : call[c].pc # "done"          \* nothing is observed after the last call
  /\ LET new == ChangeTo(kind, p) IN
     /\ new # srv
     /\ srv' = new
     /\ nextHv' = IF kind \in {"setpw", "create"} THEN nextHv + 1 ELSE nextHv
     /\ nchg' = nchg + 1
     /\ IF Atomic THEN Installed(new) ELSE UNCHANGED <<node, cache, okPw, okView>>
  /\ UNCHANGED call

Install == /\ ~Atomic /\ node # srv
           /\ Installed(srv)
           /\ UNCHANGED <<srv, nextHv, nchg, call>>

\* ---- Client.Authenticate
Start(c, p) ==
  /\ call[c].pc = "idle"
  /\ \A d \in Calls : d < c => call[d].pc # "idle"
  /\ call' = [call EXCEPT ![c] = IF node.exists THEN [pc |-> "gotUser", pw |-> p, u |-> node, res |-> "-"]
                                                ELSE [pc |-> "done", pw |-> p, u |-> NoUser, res |-> "notfound"]]
  /\ okPw' = [okPw EXCEPT ![c] = IF node.exists THEN {node.pw} ELSE {}]
  /\ okView' = [okView EXCEPT ![c] = IF node.exists THEN {View(node)} ELSE {}]
  /\ UNCHANGED <<srv, node, cache, nextHv, nchg>>

Hit(c) == /\ cache.has /\ cache.pw = call[c].pw
          /\ ("bhashOnLookup" \in CodeOpts => cache.hv = call[c].u.hv)

Check(c) ==
  /\ call[c].pc = "gotUser"
  /\ call' = [call EXCEPT ![c] = IF Hit(c) THEN [@ EXCEPT !.pc = "done", !.res = "ok"]
                                 ELSE IF @.u.pw = @.pw THEN [@ EXCEPT !.pc = "needInsert"]
                                 ELSE [@ EXCEPT !.pc = "done", !.res = "fail"]]
  /\ UNCHANGED <<srv, node, cache, nextHv, nchg, okPw, okView>>

Insert(c) ==
  /\ call[c].pc = "needInsert"
  /\ cache' = [has |-> TRUE, pw |-> call[c].pw, hv |-> call[c].u.hv]
  /\ call' = [call EXCEPT ![c] = [@ EXCEPT !.pc = "done", !.res = "ok"]]
  /\ UNCHANGED <<srv, node, nextHv, nchg, okPw, okView>>

Next == \/ \E k \in Kinds, p \in Pws : Change(k, p)
        \/ Install
        \/ \E c \in Calls : (\E p \in Pws : Start(c, p)) \/ Check(c) \/ Insert(c)
Spec == Init /\ [][Next]_vars

UserRecs == [exists : BOOLEAN, pw : Pws \cup {"-"}, hv : 0..(MaxChanges + 1), admin : BOOLEAN, rd : BOOLEAN]
TypeOK == /\ srv \in UserRecs /\ node \in UserRecs
          /\ cache \in [has : BOOLEAN, pw : Pws \cup {"-"}, hv : 0..(MaxChanges + 1)]
          /\ nchg \in 0..MaxChanges /\ nextHv \in 1..(MaxChanges + 2)
          /\ \A c \in Calls : /\ call[c].pc \in {"idle", "gotUser", "needInsert", "done"}
                              /\ call[c].res \in {"-", "ok", "fail", "notfound"}

\* ---- properties
\* A successful Authenticate presented a password that was the user's password at this node at some moment
\* between the call's start and its return.  Hence: once a change has been installed, no call started
\* afterwards succeeds with the old password - not even through an entry left by a call that started earlier.
C16_OldCredentialDiesOnArrival ==
  \A c \in Calls : (call[c].pc = "done" /\ call[c].res = "ok") => call[c].pw \in okPw[c]
\* the user record handed to the authorizer (admin flag, grants) is one the node held during the call
C16_OldPrivilegeDiesOnArrival ==
  \A c \in Calls : (call[c].pc = "done" /\ call[c].res = "ok") => View(call[c].u) \in okView[c]
\* a cache entry never claims more than was verified
CacheSound == cache.has => cache.hv > 0
\* non-vacuity witnesses ("must be violated")
NeverCacheHit == \A c \in Calls : ~(call[c].pc = "gotUser" /\ Hit(c))
NeverStaleEntry == ~(cache.has /\ node.exists /\ cache.hv # node.hv)
NeverRejectsOld == \A c \in Calls : ~(call[c].pc = "done" /\ call[c].res = "fail" /\ call[c].pw # node.pw /\ nchg > 0)
=============================================================================
