------------------------------- MODULE CopyShard -------------------------------
(* C18 - backup, restore and shard copy reproduce the shard exactly.                         *)
(*                                                                                          *)
(* Source shard = TSM files (generation, sequence, data, pending tombstones, mtimes) + cache *)
(* + an optional cache snapshot in flight (tsm1.Engine.WriteSnapshot between Cache.Snapshot  *)
(* and FileStore.Replace).  One action per step of the real code:                            *)
(*   Write / Snapshot (SnapBegin,SnapEnd) / Delete / Compact        tsdb/engine/tsm1/engine.go *)
(*   BackupBegin  = Engine.Backup -> CreateSnapshot: flush the cache, hard-link the file set   *)
(*   BackupStream = pkg/tar.Stream writes one tar entry (SinceFilterTarFile: mtime > since)    *)
(*   BackupEnd    = tar trailer                                                               *)
(*   ConnCut(at)  = the connection ends early, SrcMissing = Store.BackupShard fails at once   *)
(*   DestCreateShard / DestRestore = coordinator.Service.processCopyShardRequest              *)
(*                  (Store.CreateShard, Store.RestoreShard -> Engine.overlay) or ImportShard  *)
(*   MetaAddOwner / CopyFailed = services/meta handler.serveCopyShard after the rpc returned  *)
(* A copy round is RequestCopy -> DestPull -> stream -> DestCreateShard -> DestRestore ->     *)
(* MetaAddOwner | CopyFailed.  Round 2 (MaxBackups = 2) is a second, possibly time-bounded    *)
(* backup restored over the destination of round 1 (incremental chain).                       *)
(*                                                                                          *)
(* Dev = deviations of the code as found (section 8 of DESIGN): with Dev = {} the spec is the *)
(* repaired design and the three properties hold; each deviation alone violates one of them.  *)
(*   "eofOk"     F18: a stream that ends at an entry boundary without the tar trailer is a     *)
(*               clean EOF for archive/tar; the restore reports success                        *)
(*   "noTomb"    F19: readFileFromBackup skips everything that is not *.tsm                    *)
(*   "skipCache" F20: Backup calls CreateSnapshot(skipCacheOk = true)                          *)
(*   "snapFailOk" (not in the code as found; negative control): a cache snapshot that FAILS    *)
(*               (snapshots disabled, file cannot be created) is tolerated like one in flight  *)
EXTENDS Integers, Sequences, FiniteSets, TLC

CONSTANTS NP,          \* points 1..NP (a point = one series at one timestamp)
          Vals,        \* values written (positive integers)
          MaxPrep,     \* source actions before the first backup
          MaxMid,      \* source actions between two backups
          MaxRace,     \* writes racing one backup
          MaxBackups,  \* 1 or 2
          MaxFiles,    \* bound on the number of source files
          Cuts,        \* subset of {"beforeFirst", "midFile", "boundary", "beforeTrailer"}
          Missing,     \* BOOLEAN: SrcMissing enabled
          Modes,       \* subset of {"restore", "import"}
          SnapFails,   \* ways the backup's own cache snapshot can fail: subset of {"disabled", "io"}
          Dev

Points == 1..NP
None == 0
EmptyC == [p \in Points |-> None]

VARIABLES files, cache, snap, snapOn, gen, clock, hasShard,   \* source
          pc, round, budget, nrace,                             \* control
          since, units, sent, partial, wire, lastBegin,         \* backup stream in progress
          window, chainOK, advOK, taint,                        \* ghosts
          dstShard, dst, dstGen, resp, owners                   \* destination, metadata

srcVars == <<files, cache, snap, snapOn, gen, clock, hasShard>>
bkVars == <<since, units, sent, partial, wire, lastBegin>>
dstVars == <<dstShard, dst, dstGen, resp, owners>>
vars == <<srcVars, pc, round, budget, nrace, bkVars, window, chainOK, advOK, taint, dstVars>>

---------------------------------------------------------------------------------------------
(* logical content *)
FVal(f, p) == IF p \in f.tomb THEN None ELSE f.d[p]
RECURSIVE RF(_, _, _)
RF(fs, n, p) == IF n = 0 THEN None ELSE IF FVal(fs[n], p) # None THEN FVal(fs[n], p) ELSE RF(fs, n - 1, p)
FilesContent(fs) == [p \in Points |-> RF(fs, Len(fs), p)]
Over(top, bot) == [p \in Points |-> IF top[p] # None THEN top[p] ELSE bot[p]]
ContentOf(fs, sn, on, c) == Over(c, Over(IF on THEN sn ELSE EmptyC, FilesContent(fs)))
SrcContent == ContentOf(files, snap, snapOn, cache)
DstContent == FilesContent(dst)

Less(a, b) == a.g < b.g \/ (a.g = b.g /\ a.s < b.s)
SameName(a, b) == a.g = b.g /\ a.s = b.s
InsertF(fs, f) == SelectSeq(fs, LAMBDA x : Less(x, f)) \o <<f>> \o SelectSeq(fs, LAMBDA x : Less(f, x))
NewFile(g, s, d, t) == [g |-> g, s |-> s, d |-> d, tomb |-> {}, mt |-> t, tmt |-> 0]

RECURSIVE UnitsOf(_, _, _)
UnitsOf(fs, i, sn) ==
  IF i > Len(fs) THEN <<>>
  ELSE (IF fs[i].tomb # {} /\ fs[i].tmt > sn THEN <<[k |-> "tomb", g |-> fs[i].g, s |-> fs[i].s, tomb |-> fs[i].tomb, d |-> EmptyC]>> ELSE <<>>)
       \o (IF fs[i].mt > sn THEN <<[k |-> "tsm", g |-> fs[i].g, s |-> fs[i].s, tomb |-> {}, d |-> fs[i].d]>> ELSE <<>>)
       \o UnitsOf(fs, i + 1, sn)

---------------------------------------------------------------------------------------------
Init ==
  /\ files = <<>> /\ cache = EmptyC /\ snap = EmptyC /\ snapOn = FALSE /\ gen = 1 /\ clock = 0
  /\ hasShard \in (IF Missing THEN BOOLEAN ELSE {TRUE})
  /\ pc = "prep" /\ round = 0 /\ budget = MaxPrep /\ nrace = 0
  /\ since = 0 /\ units = <<>> /\ sent = 0 /\ partial = FALSE /\ wire = "idle" /\ lastBegin = 0
  /\ window = {} /\ chainOK = TRUE /\ advOK = TRUE /\ taint = {}
  /\ dstShard = FALSE /\ dst = <<>> /\ dstGen = 1 /\ resp = "none" /\ owners = {"src"}

(* a source action is either preparation (between rounds) or races the backup in progress *)
SrcStep ==
  \/ /\ pc = "prep" /\ budget > 0 /\ budget' = budget - 1 /\ UNCHANGED <<nrace, window>>
  \/ /\ pc = "stream" /\ wire = "open" /\ nrace < MaxRace /\ nrace' = nrace + 1 /\ UNCHANGED budget
     /\ window' = window \cup {ContentOf(files', snap', snapOn', cache')}
Rest == UNCHANGED <<pc, round, bkVars, chainOK, advOK, taint, dstVars, hasShard>>

Write(p, v) ==
  /\ hasShard
  /\ cache' = [cache EXCEPT ![p] = v]
  /\ UNCHANGED <<files, snap, snapOn, gen, clock>>
  /\ SrcStep /\ Rest

FlushTo(fs, c) == Append(fs, NewFile(gen, 1, c, clock + 1))

Snapshot ==       \* WriteSnapshot start to end
  /\ hasShard /\ ~snapOn /\ cache # EmptyC /\ Len(files) < MaxFiles
  /\ files' = FlushTo(files, cache) /\ cache' = EmptyC /\ gen' = gen + 1 /\ clock' = clock + 1
  /\ UNCHANGED <<snap, snapOn>>
  /\ SrcStep /\ Rest

SnapBegin ==      \* WriteSnapshot up to Cache.Snapshot(): the snapshot is in flight
  /\ hasShard /\ ~snapOn /\ cache # EmptyC /\ Len(files) < MaxFiles /\ pc = "prep"
  /\ snap' = cache /\ snapOn' = TRUE /\ cache' = EmptyC
  /\ UNCHANGED <<files, gen, clock>>
  /\ SrcStep /\ Rest

SnapEnd ==        \* writeSnapshotAndCommit; may fall anywhere, also while a backup streams
  /\ snapOn /\ Rest
  /\ files' = FlushTo(files, snap) /\ snap' = EmptyC /\ snapOn' = FALSE /\ gen' = gen + 1 /\ clock' = clock + 1
  /\ UNCHANGED <<cache, budget, nrace, window>>

Delete(p) ==      \* DeleteSeriesRange(series of p, t(p), t(p)): tombstones on every file that shows p, cache entry removed
  /\ hasShard /\ ~snapOn /\ pc = "prep" /\ SrcContent[p] # None
  /\ files' = [i \in 1..Len(files) |->
                 IF FVal(files[i], p) # None THEN [files[i] EXCEPT !.tomb = @ \cup {p}, !.tmt = clock + 1] ELSE files[i]]
  /\ cache' = [cache EXCEPT ![p] = None]
  /\ clock' = clock + 1
  /\ UNCHANGED <<snap, snapOn, gen>>
  /\ SrcStep /\ Rest

HasTomb == \E i \in 1..Len(files) : files[i].tomb # {}
Compact ==        \* full compaction: one file (max generation, max sequence + 1), tombstones applied
  /\ hasShard /\ ~snapOn /\ pc = "prep" /\ Len(files) >= 1 /\ (Len(files) >= 2 \/ HasTomb)
  /\ LET m == FilesContent(files)
         last == files[Len(files)] IN
     files' = IF m = EmptyC THEN <<>> ELSE <<NewFile(last.g, last.s + 1, m, clock + 1)>>
  /\ clock' = clock + 1
  \* Restore "only overwrites files included in the backup": files that a compaction removed at the source
  \* stay in a destination restored earlier, where no later delete can reach them (their tombstones have no
  \* counterpart at the source).  A chain of backups over one destination is therefore claimed only while no
  \* compaction ran at the source after the first backup.
  /\ chainOK' = (chainOK /\ round = 0)
  /\ UNCHANGED <<cache, snap, snapOn, gen, hasShard, pc, round, bkVars, advOK, taint, dstVars>>
  /\ SrcStep

---------------------------------------------------------------------------------------------
(* the copy round *)
RequestCopy ==    \* meta handler -> rpc client -> destination
  /\ pc = "prep" /\ round < MaxBackups
  /\ pc' = "requested" /\ resp' = "none"
  /\ UNCHANGED <<srcVars, round, budget, nrace, bkVars, window, chainOK, advOK, taint, dstShard, dst, dstGen, owners>>

BackupBegin(sn) ==   \* DestPull reaches a source that holds the shard
  /\ pc = "requested" /\ hasShard
  /\ snapOn => "skipCache" \in Dev        \* repaired design: the backup waits for / fails on a snapshot in flight
  /\ LET fl == ~snapOn /\ cache # EmptyC
         fs == IF fl THEN FlushTo(files, cache) ELSE files IN
     /\ files' = fs
     /\ cache' = IF fl THEN EmptyC ELSE cache
     /\ gen' = IF fl THEN gen + 1 ELSE gen
     /\ clock' = IF fl THEN clock + 1 ELSE clock
     /\ units' = UnitsOf(fs, 1, sn)
     /\ lastBegin' = IF fl THEN clock + 1 ELSE clock
  /\ since' = sn /\ sent' = 0 /\ partial' = FALSE /\ wire' = "open"
  /\ window' = {SrcContent}
  /\ taint' = IF snapOn THEN taint \cup {"skipCache"} ELSE taint
  /\ pc' = "stream" /\ nrace' = 0
  /\ UNCHANGED <<snap, snapOn, hasShard, round, budget, chainOK, advOK, dstVars>>

(* The cache snapshot the backup takes for itself fails for a reason other than "in progress":       *)
(* "disabled" = Compactor.WriteSnapshot returns errSnapshotsDisabled (Shard.Free / SetCompactionsEnabled *)
(* (false) until the next tick of Store.monitorShards), "io" = the snapshot file cannot be created.     *)
(* CreateSnapshot returns the error, Backup writes nothing, the connection closes with zero bytes: the  *)
(* copy is refused.  Tolerating the error ("snapFailOk") streams the files without the cache.           *)
BackupBeginFail(kind) ==
  /\ pc = "requested" /\ hasShard /\ ~snapOn /\ cache # EmptyC /\ round = 0 /\ MaxBackups = 1
  /\ IF "snapFailOk" \in Dev
        THEN /\ units' = UnitsOf(files, 1, 0) /\ wire' = "open" /\ pc' = "stream"
             /\ taint' = taint \cup {"snapFailOk"}
        ELSE /\ units' = <<>> /\ wire' = "cut" /\ pc' = "ended" /\ UNCHANGED taint
  /\ since' = 0 /\ sent' = 0 /\ partial' = FALSE /\ lastBegin' = clock /\ nrace' = 0
  /\ window' = {SrcContent}
  /\ UNCHANGED <<srcVars, round, budget, chainOK, advOK, dstVars>>

SrcMissing ==     \* Store.BackupShard: "shard doesn't exist on this server"; the handler returns, the connection closes
  /\ pc = "requested" /\ ~hasShard
  /\ units' = <<>> /\ sent' = 0 /\ partial' = FALSE /\ wire' = "cut" /\ since' = 0
  /\ window' = {}
  /\ pc' = "ended"
  /\ UNCHANGED <<srcVars, round, budget, nrace, lastBegin, chainOK, advOK, taint, dstVars>>

BackupStream ==
  /\ pc = "stream" /\ wire = "open" /\ sent < Len(units)
  /\ sent' = sent + 1
  /\ UNCHANGED <<srcVars, pc, round, budget, nrace, since, units, partial, wire, lastBegin, window, chainOK, advOK, taint, dstVars>>

BackupEnd ==
  /\ pc = "stream" /\ wire = "open" /\ sent = Len(units)
  /\ wire' = "trailer" /\ pc' = "ended"
  /\ UNCHANGED <<srcVars, round, budget, nrace, since, units, sent, partial, lastBegin, window, chainOK, advOK, taint, dstVars>>

ConnCut(at) ==
  /\ pc = "stream" /\ wire = "open"
  /\ CASE at = "beforeFirst" -> sent = 0 /\ Len(units) > 0 /\ partial' = FALSE
       [] at = "midFile" -> sent < Len(units) /\ partial' = TRUE
       [] at = "boundary" -> 0 < sent /\ sent < Len(units) /\ partial' = FALSE
       [] at = "beforeTrailer" -> sent = Len(units) /\ partial' = FALSE
  /\ wire' = "cut" /\ pc' = "ended"
  /\ UNCHANGED <<srcVars, round, budget, nrace, since, units, sent, lastBegin, window, chainOK, advOK, taint, dstVars>>

DestCreateShard ==
  /\ pc = "ended" /\ dstShard' = TRUE /\ pc' = "created"
  /\ UNCHANGED <<srcVars, round, budget, nrace, bkVars, window, chainOK, advOK, taint, dst, dstGen, resp, owners>>

Rcvd == SubSeq(units, 1, sent)
RECURSIVE PutTsm(_, _, _, _)      \* same-name restore: the file replaces / joins the destination's set; an old tombstone file stays
PutTsm(d, us, i, mode) ==
  IF i > Len(us) THEN d
  ELSE IF us[i].k # "tsm" THEN PutTsm(d, us, i + 1, mode)
  ELSE LET old == SelectSeq(d, LAMBDA x : SameName(x, us[i]))
           f == [g |-> us[i].g, s |-> us[i].s, d |-> us[i].d,
                 tomb |-> IF old = <<>> THEN {} ELSE old[1].tomb, mt |-> 0, tmt |-> 0] IN
       PutTsm(InsertF(d, f), us, i + 1, mode)
RECURSIVE PutTomb(_, _, _)
PutTomb(d, us, i) ==
  IF i > Len(us) THEN d
  ELSE IF us[i].k # "tomb" THEN PutTomb(d, us, i + 1)
  ELSE PutTomb([j \in 1..Len(d) |-> IF SameName(d[j], us[i]) THEN [d[j] EXCEPT !.tomb = us[i].tomb] ELSE d[j]], us, i + 1)
\* import: every tsm entry becomes a new generation of the destination (order of arrival), its tombstone travels with it
RECURSIVE Renamed(_, _, _)
Renamed(us, i, g) ==
  IF i > Len(us) THEN <<>>
  ELSE IF us[i].k = "tsm" THEN <<[us[i] EXCEPT !.g = g, !.s = 1]>> \o Renamed(us, i + 1, g + 1)
  ELSE IF i < Len(us) /\ us[i + 1].k = "tsm" /\ SameName(us[i], us[i + 1])
       THEN <<[us[i] EXCEPT !.g = g, !.s = 1]>> \o Renamed(us, i + 1, g)
       ELSE Renamed(us, i + 1, g)
NTsm(us) == Len(SelectSeq(us, LAMBDA u : u.k = "tsm"))

DestRestore(mode) ==
  /\ pc = "created"
  /\ mode = "import" => (round = 0 /\ MaxBackups = 1)
  /\ LET ok == ~partial /\ (wire = "trailer" \/ "eofOk" \in Dev)
         us == IF mode = "import" THEN Renamed(Rcvd, 1, dstGen) ELSE Rcvd
         d1 == PutTsm(dst, us, 1, mode)
         d2 == IF "noTomb" \in Dev THEN d1 ELSE PutTomb(d1, us, 1) IN
     /\ dst' = IF ok THEN d2 ELSE dst
     /\ dstGen' = IF ok /\ mode = "import" THEN dstGen + NTsm(us) ELSE dstGen
     /\ resp' = IF ok THEN "ok" ELSE "err"
     /\ taint' = taint \cup (IF ok /\ wire = "cut" THEN {"eofOk"} ELSE {})
                       \cup (IF ok /\ "noTomb" \in Dev /\ \E i \in 1..Len(us) : us[i].k = "tomb" THEN {"noTomb"} ELSE {})
  /\ pc' = "restored"
  /\ UNCHANGED <<srcVars, round, budget, nrace, bkVars, window, chainOK, advOK, dstShard, owners>>

NextRound ==
  /\ pc' = "prep" /\ round' = round + 1 /\ budget' = MaxMid /\ nrace' = 0
  /\ wire' = "idle"
  /\ UNCHANGED <<srcVars, since, units, sent, partial, lastBegin, window, taint, dstShard, dst, dstGen, resp>>

MetaAddOwner ==   \* serveCopyShard: rpc returned nil -> store.copyShard(shard, dest node)
  /\ pc = "restored" /\ resp = "ok"
  /\ owners' = owners \cup {"dst"}
  /\ advOK' = (advOK /\ (chainOK => DstContent \in window))
  /\ UNCHANGED chainOK
  /\ NextRound

CopyFailed ==     \* serveCopyShard: rpc returned an error -> HTTP 500, metadata untouched
  /\ pc = "restored" /\ resp = "err"
  /\ chainOK' = FALSE             \* nothing is claimed about later rounds over a destination whose copy failed
  /\ UNCHANGED <<owners, advOK>>
  /\ NextRound

Next ==
  \/ \E p \in Points, v \in Vals : Write(p, v)
  \/ Snapshot \/ SnapBegin \/ SnapEnd \/ Compact
  \/ \E p \in Points : Delete(p)
  \/ RequestCopy \/ SrcMissing \/ BackupStream \/ BackupEnd
  \/ \E sn \in {0, lastBegin} : (round = 0 => sn = 0) /\ BackupBegin(sn)
  \/ \E at \in Cuts : ConnCut(at)
  \/ \E k \in SnapFails : BackupBeginFail(k)
  \/ DestCreateShard
  \/ \E m \in Modes : DestRestore(m)
  \/ MetaAddOwner \/ CopyFailed

Spec == Init /\ [][Next]_vars

---------------------------------------------------------------------------------------------
TypeOK ==
  /\ pc \in {"prep", "requested", "stream", "ended", "created", "restored"}
  /\ wire \in {"idle", "open", "trailer", "cut"}
  /\ resp \in {"none", "ok", "err"}
  /\ owners \subseteq {"src", "dst"}
  /\ sent \in 0..Len(units)
  /\ \A i \in 1..Len(files) : files[i].tomb \subseteq Points
  /\ \A i \in 1..(Len(files) - 1) : Less(files[i], files[i + 1])
  /\ \A i \in 1..(Len(dst) - 1) : Less(dst[i], dst[i + 1])

(* the copy equals the source at some instant between the start and the end of the backup *)
C18_CopyEqualsSomeStateInWindow ==
  (pc = "restored" /\ resp = "ok" /\ chainOK) => DstContent \in window

(* the metadata advertises the destination only if it holds the full content *)
C18_FailedCopyNotAdvertised == advOK
C18_OwnerOnlyAfterOk == [][("dst" \in owners' /\ "dst" \notin owners) => (resp = "ok" /\ pc = "restored")]_vars

(* no step of a backup / copy changes what the source answers *)
BackupSteps == pc \in {"requested", "stream", "ended", "created", "restored"} /\ nrace' = nrace
C18_SourceUnchanged == [][BackupSteps => ContentOf(files', snap', snapOn', cache') = SrcContent]_vars

(* a failed restore leaves the destination as it was *)
C18_FailedRestoreLeavesDest == [][(pc = "created" /\ resp' = "err") => dst' = dst]_vars

(* non-vacuity probes (expected to be violated) *)
Probe_OwnerAdded == "dst" \notin owners
Probe_TombShipped == ~(pc = "stream" /\ \E i \in 1..Len(units) : units[i].k = "tomb")
Probe_ChainRound2 == ~(round = 1 /\ pc = "restored" /\ resp = "ok" /\ chainOK /\ since > 0 /\ Len(units) > 0 /\ Len(dst) > Len(Rcvd))
Probe_RaceWindow == Cardinality(window) < 2
Probe_SnapFailRefused == ~(pc = "restored" /\ resp = "err" /\ wire = "cut" /\ units = <<>> /\ hasShard /\ cache # EmptyC)
Probe_CutFailed == ~(pc = "restored" /\ resp = "err" /\ wire = "cut" /\ sent > 0)

Bounded == Len(files) <= MaxFiles + 1
=============================================================================
