----------------------------- MODULE CopyShardGen -----------------------------
(* Scenario generator for the replay on the real tsdb.Store / coordinator.Service / meta      *)
(* handler.  One step = one action of CopyShard; every step carries the model's state after   *)
(* the step: logical content of the source, file layout (generation, sequence, tombstones,    *)
(* mtimes), the tar entries the backup must contain, the window of source states a copy may   *)
(* equal.  The generator runs with all deviations enabled so that the scenario *shapes* of    *)
(* F18/F19/F20 are produced (a cut at an entry boundary that the restore accepts, a backup     *)
(* begun while a cache snapshot is in flight); the harness judges the real outcome against    *)
(* the property (window, owner list), not against the deviating prediction.                    *)
EXTENDS CopyShard, Json

CONSTANTS GenMax,      \* longest scenario
          GenFocus,    \* "store": no cuts (plain backup / restore, races, chain); "copy": protocol faults
          GenReqAt     \* remaining preparation budgets at which a copy may be requested ({0}: use all of it)
VARIABLE hist
gvars == <<vars, hist>>

FileProj(fs) == [i \in 1..Len(fs) |-> [g |-> fs[i].g, s |-> fs[i].s, tomb |-> fs[i].tomb, mt |-> fs[i].mt, tmt |-> fs[i].tmt]]
UnitProj(us) == [i \in 1..Len(us) |-> [k |-> us[i].k, g |-> us[i].g, s |-> us[i].s]]
Proj == [src |-> ContentOf(files', snap', snapOn', cache'), files |-> FileProj(files'),
         snapOn |-> snapOn', cacheEmpty |-> (cache' = EmptyC), hasShard |-> hasShard',
         units |-> UnitProj(units'), sent |-> sent', wire |-> wire', partial |-> partial', since |-> since',
         window |-> window', round |-> round', chainOK |-> chainOK', pc |-> pc',
         dstModel |-> FilesContent(dst'), respModel |-> resp', owners |-> owners']
Log(rec) == hist' = Append(hist, rec @@ [p |-> 0, v |-> 0, x |-> "", st |-> Proj])

Terminal == pc = "prep" /\ round = MaxBackups

GNext ==
  /\ ~Terminal /\ Len(hist) < GenMax
  /\ \/ \E p \in Points, v \in Vals : SrcContent[p] # v /\ Write(p, v) /\ Log([a |-> "Write", p |-> p, v |-> v])
     \/ Snapshot /\ Log([a |-> "Snapshot"])
     \/ SnapBegin /\ Log([a |-> "SnapBegin"])
     \/ SnapEnd /\ pc \in {"prep", "ended"} /\ Log([a |-> "SnapEnd"])
     \/ Compact /\ Log([a |-> "Compact"])
     \/ \E p \in Points : Delete(p) /\ Log([a |-> "Delete", p |-> p])
     \/ (budget \in GenReqAt \/ ~hasShard) /\ RequestCopy /\ Log([a |-> "RequestCopy"])
     \/ SrcMissing /\ Log([a |-> "SrcMissing"])
     \/ \E sn \in {0, lastBegin} : (round = 0 => sn = 0) /\ BackupBegin(sn) /\ Log([a |-> "BackupBegin", v |-> sn])
     \/ \E k \in SnapFails : GenFocus = "copy" /\ BackupBeginFail(k) /\ Log([a |-> "BackupBeginFail", x |-> k])
     \/ BackupStream /\ Log([a |-> "BackupStream"])
     \/ BackupEnd /\ Log([a |-> "BackupEnd"])
     \* no cut on top of a backup that already misses the cache (one finding per scenario)
     \/ \E at \in Cuts : GenFocus = "copy" /\ "skipCache" \notin taint /\ ConnCut(at) /\ Log([a |-> "ConnCut", x |-> at])
     \/ DestCreateShard /\ Log([a |-> "DestCreateShard"])
     \/ \E m \in Modes : DestRestore(m) /\ Log([a |-> "DestRestore", x |-> m])
     \/ MetaAddOwner /\ Log([a |-> "MetaAddOwner"])
     \/ CopyFailed /\ Log([a |-> "CopyFailed"])

GInit == Init /\ hist = <<>>
GSpec == GInit /\ [][GNext]_gvars

Emit == Terminal => PrintT(<<"BEHAVIOUR", ToJson(hist)>>)
=============================================================================
