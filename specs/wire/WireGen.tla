------------------------------ MODULE WireGen ------------------------------
(* Enumerates every abstract connection of Wire (BFS with the history in the state): mux   *)
(* header, up to MaxFrames frames, how the peer ends the connection; prints each with the   *)
(* reaction the PROPERTY allows per frame (not the implementation's choice) and with the    *)
(* model's statement whether the server keeps reading after the frame.                      *)
(*                                                                                        *)
(* The peer acts only when the server is quiescent (waiting for bytes or closed): on a FIFO  *)
(* stream that loses no behaviour of the server; the harness writes all bytes at once and    *)
(* in seeded chunk sizes.                                                                   *)
EXTENDS Wire, Json

CONSTANTS GenHdr,      \* mux headers to generate: subset of {"coord", "other", "nothing"}
          GenEnds,     \* subset of {"half", "disconnect"}
          FollowTypes, \* types of the frames after the first one (Types = no restriction)
          FollowPays   \* payload classes of the frames after the first one (PayClasses = no restriction)

VARIABLE hist
gvars == <<vars, hist>>

\* what the property allows as the answer to a frame
Allowed(f) == IF Malformed(f) THEN {"err", "close"}
              ELSE IF WellFormedValid(f) THEN {"ok"}
              ELSE {"ok", "err", "close"}
\* does the server (model) keep reading frames after this one
Continues(f) == /\ f.typ \in RawLV \cup Loop
                /\ ~NeedsEnd(f)
                /\ ~(f.typ \in RawLV /\ f.lenc \in LenRejected)

Quiescent == \/ srv \in {"AwaitType", "Closed"}
             \/ srv \in {"AwaitLen", "AwaitPayload"} /\ NeedsEnd(cur)
             \/ srv = "Mux" /\ hdr = "-"

FrameRec(f) == [a |-> "frame", typ |-> f.typ, lenc |-> f.lenc, pay |-> f.pay,
                allowed |-> Allowed(f), cont |-> Continues(f), malformed |-> Malformed(f)]

GInit == Init /\ hist = <<>>

GNext ==
  \/ \E h \in GenHdr \cap {"coord", "other"} : Connect(h) /\ hist' = Append(hist, [a |-> "connect", hdr |-> h])
  \/ CanSend /\ \E f \in Frames :
        /\ nframes = 0 \/ (f.typ \in FollowTypes /\ f.pay \in FollowPays)
        /\ Send(f) /\ hist' = Append(hist, FrameRec(f))
  \* the end of the connection: between frames, or inside a frame that only the end can complete
  \/ /\ "half" \in GenEnds /\ peer = "open" /\ Quiescent
     /\ (inflight = NoFrame \/ NeedsEnd(inflight))
     /\ (hdr # "-" \/ "nothing" \in GenHdr)
     /\ HalfClose /\ hist' = Append(hist, [a |-> "end", how |-> "half"])
  \/ /\ "disconnect" \in GenEnds /\ peer = "open" /\ Quiescent
     /\ (inflight = NoFrame \/ NeedsEnd(inflight))
     /\ hdr # "-"
     /\ Disconnect /\ hist' = Append(hist, [a |-> "end", how |-> "disconnect"])
  \/ (MuxDispatch \/ SrvReadType \/ SrvReadLen \/ SrvReadPayload \/ SrvDispatch \/ SrvReply) /\ UNCHANGED hist
  \/ Probe /\ UNCHANGED hist

GSpec == GInit /\ [][GNext]_gvars

\* a connection is printed once: when the probe has been made and the peer has ended it
Terminal == probe = "done" /\ peer # "open"
Out == [steps |-> hist, probe |-> probeReact]
Emit == Terminal => PrintT(<<"BEHAVIOUR", ToJson(Out)>>)
=============================================================================
