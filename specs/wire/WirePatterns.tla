---------------------------- MODULE WirePatterns ----------------------------
(* C15, payload half: the partition of the space of well-formed message values that the    *)
(* round-trip exploration instantiates (DESIGN section 6: spec-generated exploration, not   *)
(* model checking).                                                                        *)
(*                                                                                        *)
(* Messages: for every request / response type of coordinator/rpc.go the set of optional    *)
(* parts ("knobs": optional fields, nil-able members, empty vs filled collections, error    *)
(* present, alternative forms such as name vs regex); a pattern is the subset that is       *)
(* present.  Types with at most Full knobs get every subset, larger ones every subset with  *)
(* at most two members or at most one member missing.                                       *)
(* Points: value type x nil marker x tag set x auxiliary values (sequences up to MaxAux     *)
(* over every value type, the typed nil of every type and the untyped nil) x aggregate      *)
(* count x name x time class.                                                              *)
EXTENDS Integers, Sequences, FiniteSets, TLC, Json

CONSTANTS Full, MaxAux, Times, Aggs, Names, TagSets

OptKnobs  == {"expr", "call", "aux", "auxtyped", "interval", "dims", "groupby", "fill", "fillnum", "fillint",
              "cond", "loc", "limits", "flags", "times", "sources", "maxseries"}
MeasKnobs == {"regex", "db", "sysiter", "target"}

Knobs == [
  WriteShardRequest            |-> {"db", "rp", "p1", "p2", "ptags", "pfields"},
  WriteShardResponse           |-> {"code", "msg"},
  ExecuteStatementRequest      |-> {"long", "db"},
  ExecuteStatementResponse     |-> {"code", "msg"},
  TaskManagerStatementRequest  |-> {"stmt"},
  TaskManagerStatementResponse |-> {"err", "series", "messages", "rerr", "sid"},
  MeasurementNamesRequest      |-> {"db", "rp", "cond"},
  MeasurementNamesResponse     |-> {"names", "emptyname", "err"},
  TagKeysRequest               |-> {"shards", "cond"},
  TagKeysResponse              |-> {"keys", "err"},
  TagValuesRequest             |-> {"shards", "cond"},
  TagValuesResponse            |-> {"values", "err"},
  SeriesSketchesRequest        |-> {"db"},
  SeriesSketchesResponse       |-> {"sketch", "tssketch", "filled", "err"},
  MeasurementsSketchesRequest  |-> {"db"},
  MeasurementsSketchesResponse |-> {"sketch", "tssketch", "filled", "err"},
  StoreReadFilterRequest       |-> {"shards", "range", "pred"},
  StoreReadFilterResponse      |-> {"err"},
  StoreReadGroupRequest        |-> {"shards", "range", "pred", "keys", "group", "agg", "hints"},
  StoreReadGroupResponse       |-> {"err"},
  CreateIteratorRequest        |-> {"shards", "span"} \cup MeasKnobs \cup OptKnobs,
  CreateIteratorResponse       |-> {"err", "type", "stats"},
  IteratorCostRequest          |-> {"shards"} \cup MeasKnobs \cup OptKnobs,
  IteratorCostResponse         |-> {"err", "cost"},
  FieldDimensionsRequest       |-> {"shards"} \cup MeasKnobs,
  FieldDimensionsResponse      |-> {"fields", "dims", "err"},
  MapTypeRequest               |-> {"shards", "field"} \cup MeasKnobs,
  MapTypeResponse              |-> {"type", "err"},
  ExpandSourcesRequest         |-> {"shards", "s1", "s2regex", "s3full"},
  ExpandSourcesResponse        |-> {"sources", "regexsrc", "err"},
  BackupShardRequest           |-> {"shard", "since", "epoch"},
  CopyShardRequest             |-> {"host", "db", "rp", "since"},
  CopyShardResponse            |-> {"err"},
  RemoveShardRequest           |-> {"shard"},
  RemoveShardResponse          |-> {"err"},
  ListShardsResponse           |-> {"shards", "ownererr", "err"},
  JoinClusterRequest           |-> {"servers", "update"},
  JoinClusterResponse          |-> {"node", "err"},
  LeaveClusterResponse         |-> {"err"},
  RemoveHintedHandoffRequest   |-> {"node"},
  RemoveHintedHandoffResponse  |-> {"err"} ]

Sub(K) == IF Cardinality(K) <= Full THEN SUBSET K
          ELSE LET Small == {{}} \cup {{a, b} : a \in K, b \in K}       \* none, every single knob, every pair
               IN  Small \cup {K \ S : S \in {{}} \cup {{a} : a \in K}}   \* all, all but one

MsgPatterns == UNION {{[msg |-> m, on |-> S] : S \in Sub(Knobs[m])} : m \in DOMAIN Knobs}

ValTypes == {"float", "integer", "unsigned", "string", "boolean"}
AuxKinds == ValTypes \cup {"nilfloat", "nilinteger", "nilunsigned", "nilstring", "nilboolean", "nil",
                          "emptystring", "false", "zerofloat"}
AuxSeqs  == UNION {[1..n -> AuxKinds] : n \in 0..MaxAux}
PointPatterns ==
  [vt : ValTypes, nil : BOOLEAN, tags : TagSets, aux : AuxSeqs, agg : Aggs, name : Names, time : Times]
  \* TagSets \subseteq {"none", "one", "two", "emptyval"}, Times \subseteq {"zero", "neg", "pos", "min", "max"}

VARIABLE x
InitM == x \in MsgPatterns
InitP == x \in PointPatterns
SpecM == InitM /\ [][UNCHANGED x]_x
SpecP == InitP /\ [][UNCHANGED x]_x
Emit  == PrintT(<<"BEHAVIOUR", ToJson(x)>>)
=============================================================================
