-------------------------------- MODULE Wire --------------------------------
(* C15 - the inter-node protocol cannot be used to crash a node; malformed frames are     *)
(* answered with an error or by closing the connection; valid requests are answered.       *)
(*                                                                                        *)
(* One inbound connection of coordinator.Service behind tcp.Mux (coordinator/service.go    *)
(* handleConn, ReadType, ReadLV, DecodeLV, the process*Request functions; tcp/mux.go       *)
(* handleConn), a peer that may send anything, and a probe connection opened afterwards.   *)
(*                                                                                        *)
(* Wire format: 1 mux header byte per connection, then frames                              *)
(*     type (1 byte) | length (8 bytes, big endian, SIGNED) | payload (length bytes)        *)
(* Two request types carry no length/payload at all (listShards, leaveCluster).            *)
(*                                                                                        *)
(* The peer sends abstract frames [typ, lenc, pay]; the server consumes them with one       *)
(* action per step of the real code:                                                       *)
(*   SrvReadType -> SrvReadLen (length check, allocation) -> SrvReadPayload -> SrvDispatch  *)
(*   (decode + process) -> SrvReply | SrvClose.                                            *)
(* TCP is a FIFO, so the peer hands over the next frame only when the previous one has     *)
(* been consumed (no behaviour is lost by that: the server reads strictly sequentially);   *)
(* HalfClose and Disconnect may come at any time, also in the middle of a frame and        *)
(* between dispatch and reply.                                                             *)
(*                                                                                        *)
(* The model is the REPAIRED design.  What the pinned tree does differently is kept as     *)
(* deviations (Dev), used as negative controls (each one violates one of the invariants):  *)
(*   negLenPanics        F15: a negative length reaches make([]byte, sz)                    *)
(*   nilPointForwarded   F16: an unparsable point in a decodable WriteShardRequest goes to  *)
(*                       the store as a nil models.Point                                   *)
(*   unknownTypeSkipped  an unknown type byte is skipped and the following bytes are read   *)
(*                       as the next frame (neither error nor close)                       *)
(*   errReplyTruncated   error replies of the two sketches requests are a lone type byte    *)
(*                       (the response cannot be marshalled: required field not set)        *)
(*   unsignedPanics      a created iterator of type unsigned panics the stream encoder      *)
(*   lenCheckOffByOne    length check > instead of >= (mutation idea)                      *)
(*   errClosesListener   a decode error closes the listener (mutation idea)                *)
EXTENDS Integers, Sequences, FiniteSets, TLC

CONSTANTS Types,       \* message type names that take part (subset of AllTypes)
          MaxFrames,   \* frames per connection
          Dev          \* enabled deviations

(* ---- message types, grouped by how handleConn treats them (read from service.go) ---- *)
RawLV    == {"writeShard", "executeStatement"}
  \* ReadLV in handleConn: framing error -> return (close); processing error -> error reply, loop goes on
Loop     == {"taskManager", "measurementNames", "tagKeys", "tagValues", "seriesSketches",
             "measurementsSketches", "iteratorCost", "fieldDimensions", "mapType"}
  \* DecodeLV inside process*: any error -> error reply; handleConn keeps reading
Once     == {"storeReadFilter", "storeReadGroup", "createIterator", "expandSources", "copyShard",
             "removeShard", "joinCluster", "removeHintedHandoff"}
  \* any error -> error reply; handleConn returns after the request (stream or single reply)
Silent   == {"backupShard"}
  \* error -> return without reply; success -> raw stream, then close
Bodyless == {"listShards", "leaveCluster"}
  \* no length/payload on the wire; reply, then close
Unknown  == {"zero", "response", "max255"}
  \* type 0, a response type (even numbers 2..44), 255
Requests == RawLV \cup Loop \cup Once \cup Silent \cup Bodyless
AllTypes == Requests \cup Unknown
WithBody == RawLV \cup Loop \cup Once \cup Silent
Sketches == {"seriesSketches", "measurementsSketches"}

(* ---- length classes.  Max = MaxMessageSize; the code rejects sz >= Max, i.e. the largest *)
(* accepted message is Max-1 bytes (convention read from ReadLV and kept by the model)  ---- *)
LenRejected == {"neg", "minint", "max", "over", "huge"}     \* -1, -2^63, Max, Max+1, 2^63-1
LenAccepted == {"zero", "small", "maxm1"}
LenClasses  == LenRejected \cup LenAccepted \cup {"partial"}   \* partial: fewer than 8 length bytes ever arrive

(* ---- payload classes ---- *)
\* none      nothing follows the header (rejected lengths; zero; a payload that never arrives)
\* valid     a well-formed request the node can serve
\* validU    createIterator only: well-formed, the created iterator is of type unsigned
\* edge      well-formed envelope and content, semantically odd: unknown shard id, a statement of a kind
\*           that is not executed across the cluster, unreachable host ...  (ok or error, no crash)
\* badenv    bytes that do not decode as the message's envelope
\* badcontent  decodable envelope with invalid content: unparsable point bytes / statement / condition,
\*           bad regex, undecodable nested message, unknown time zone
\* short     fewer payload bytes than announced ever arrive (the peer half-closes or disconnects)
\* bare/empty/embedded   unknown types: the type byte alone / type + length 0 / type + length + a payload
\*           that is itself a complete valid frame (what a newer protocol version might send)
PayClasses == {"none", "valid", "validU", "edge", "badenv", "badcontent", "short", "bare", "empty", "embedded"}

Frames ==
  LET body(t) ==
        {[typ |-> t, lenc |-> l, pay |-> "none"] : l \in LenRejected \cup {"zero", "maxm1", "partial"}}
        \cup {[typ |-> t, lenc |-> "small", pay |-> p] : p \in {"valid", "edge", "badenv", "badcontent", "short"}}
        \cup (IF t = "createIterator" THEN {[typ |-> t, lenc |-> "small", pay |-> "validU"]} ELSE {})
  IN  UNION {body(t) : t \in Types \cap WithBody}
      \cup {[typ |-> t, lenc |-> "none", pay |-> "valid"] : t \in Types \cap Bodyless}
      \cup {[typ |-> t, lenc |-> "none", pay |-> p] : t \in Types \cap Unknown, p \in {"bare", "empty", "embedded"}}

NoFrame == [typ |-> "-", lenc |-> "-", pay |-> "-"]

\* a frame that can only be completed by the end of the connection
NeedsEnd(f) == f.lenc \in {"maxm1", "partial"} \/ f.pay = "short"

\* property-level classification of a complete frame
Malformed(f) == \/ f.typ \in Unknown
                \/ f.lenc \in LenRejected \cup {"partial", "maxm1"}    \* maxm1: the payload never arrives
                \/ f.pay \in {"badenv", "badcontent", "short"}
WellFormedValid(f) == f.pay \in {"valid", "validU"}
\* zero-length payloads and "edge" contents: the node may serve them or refuse them

VARIABLES
  hdr,        \* mux header of the connection: "-" | "coord" | "other" | "nothing"
  srv,        \* "Mux" | "AwaitType" | "AwaitLen" | "AwaitPayload" | "Dispatch" | "Reply" | "Closed" | "Panic"
  peer,       \* "open" | "half" | "gone"
  inflight,   \* the frame handed over and not yet consumed completely, or NoFrame
  cur,        \* the frame the server is working on
  alloc,      \* what ReadLV allocated for the current frame: "none" or a length class
  outcome,    \* result of decode+process of the current frame: "-" | "ok" | "err"
  react,      \* the server's answer to the last completed frame: "-" | "ok" | "err" | "close" | "skipped"
  replyWF,    \* the last reply was a complete TLV record
  nframes,    \* frames handed over so far
  listener,   \* "accepting" | "closed"
  nilStored,  \* the store was handed a nil point
  probe,      \* "idle" | "done"
  probeReact  \* "-" | "ok" | "refused"

vars == <<hdr, srv, peer, inflight, cur, alloc, outcome, react, replyWF, nframes, listener, nilStored, probe, probeReact>>

TypeOK ==
  /\ hdr \in {"-", "coord", "other", "nothing"}
  /\ srv \in {"Mux", "AwaitType", "AwaitLen", "AwaitPayload", "Dispatch", "Reply", "Closed", "Panic"}
  /\ peer \in {"open", "half", "gone"}
  /\ inflight \in Frames \cup {NoFrame}
  /\ cur \in Frames \cup {NoFrame}
  /\ alloc \in {"none"} \cup LenClasses
  /\ outcome \in {"-", "ok", "err"}
  /\ react \in {"-", "ok", "err", "close", "skipped"}
  /\ replyWF \in BOOLEAN
  /\ nframes \in 0..MaxFrames
  /\ listener \in {"accepting", "closed"}
  /\ nilStored \in BOOLEAN
  /\ probe \in {"idle", "done"}
  /\ probeReact \in {"-", "ok", "refused"}

Init ==
  /\ hdr = "-" /\ srv = "Mux" /\ peer = "open" /\ inflight = NoFrame /\ cur = NoFrame
  /\ alloc = "none" /\ outcome = "-" /\ react = "-" /\ replyWF = TRUE /\ nframes = 0
  /\ listener = "accepting" /\ nilStored = FALSE /\ probe = "idle" /\ probeReact = "-"

(* ------------------------------- peer ---------------------------------- *)
\* the first byte of the connection selects the mux listener
Connect(h) ==
  /\ hdr = "-" /\ peer = "open"
  /\ hdr' = h
  /\ UNCHANGED <<srv, peer, inflight, cur, alloc, outcome, react, replyWF, nframes, listener, nilStored, probe, probeReact>>

CanSend == hdr = "coord" /\ peer = "open" /\ inflight = NoFrame /\ nframes < MaxFrames /\ srv = "AwaitType"
Send(f) ==
  /\ hdr = "coord" /\ peer = "open" /\ inflight = NoFrame /\ nframes < MaxFrames
  /\ srv = "AwaitType"                  \* the previous frame has been consumed and the server still reads
  /\ inflight' = f /\ nframes' = nframes + 1
  \* what is remembered about the previous frame has been judged in the state after its last step
  /\ cur' = NoFrame /\ alloc' = "none" /\ outcome' = "-" /\ react' = "-"
  /\ UNCHANGED <<hdr, srv, peer, replyWF, listener, nilStored, probe, probeReact>>

HalfClose ==
  /\ peer = "open"
  /\ peer' = "half"
  /\ hdr' = IF hdr = "-" THEN "nothing" ELSE hdr
  /\ UNCHANGED <<srv, inflight, cur, alloc, outcome, react, replyWF, nframes, listener, nilStored, probe, probeReact>>

Disconnect ==
  /\ peer \in {"open", "half"}
  /\ peer' = "gone"
  /\ hdr' = IF hdr = "-" THEN "nothing" ELSE hdr
  /\ UNCHANGED <<srv, inflight, cur, alloc, outcome, react, replyWF, nframes, listener, nilStored, probe, probeReact>>

(* ------------------------------- server -------------------------------- *)
Finish(r, wf, nxt) ==       \* the current frame is over: reaction r, next server state nxt
  /\ react' = r /\ replyWF' = wf /\ srv' = nxt /\ inflight' = NoFrame

\* tcp.Mux.handleConn: header byte -> registered listener | default listener (HTTP or discard) | close
MuxDispatch ==
  /\ srv = "Mux" /\ hdr # "-"
  /\ srv' = IF hdr = "coord" THEN "AwaitType" ELSE "Closed"
  /\ UNCHANGED <<hdr, peer, inflight, cur, alloc, outcome, react, replyWF, nframes, listener, nilStored, probe, probeReact>>

\* ReadType.  End of stream between frames is the regular end of a connection.
SrvReadType ==
  /\ srv = "AwaitType"
  /\ \/ /\ inflight # NoFrame
        /\ cur' = inflight /\ alloc' = "none" /\ outcome' = "-"
        /\ LET t == inflight.typ IN
           IF t \in Unknown THEN
             IF "unknownTypeSkipped" \in Dev
               THEN Finish("skipped", TRUE, "AwaitType")       \* default: branch falls through to the next ReadType
               ELSE Finish("close", TRUE, "Closed")
           ELSE IF t \in Bodyless THEN /\ srv' = "Dispatch" /\ react' = "-" /\ UNCHANGED <<replyWF, inflight>>
           ELSE /\ srv' = "AwaitLen" /\ react' = "-" /\ UNCHANGED <<replyWF, inflight>>
        /\ UNCHANGED <<hdr, peer, nframes, listener, nilStored, probe, probeReact>>
     \/ /\ inflight = NoFrame /\ peer \in {"half", "gone"}
        /\ srv' = "Closed"
        /\ UNCHANGED <<hdr, peer, inflight, cur, alloc, outcome, react, replyWF, nframes, listener, nilStored, probe, probeReact>>

\* what a framing error (bad length, stream ends inside the frame) leads to, by handler kind
FramingError ==
  LET t == cur.typ IN
  IF t \in RawLV \cup Silent THEN Finish("close", TRUE, "Closed") /\ outcome' = outcome
  ELSE /\ srv' = "Reply" /\ outcome' = "err" /\ UNCHANGED <<react, replyWF, inflight>>

\* ReadLV: 8 length bytes, the check against MaxMessageSize, make([]byte, sz)
SrvReadLen ==
  /\ srv = "AwaitLen"
  /\ LET l == cur.lenc IN
     \/ /\ l = "partial" /\ peer \in {"half", "gone"}          \* io.ErrUnexpectedEOF inside the length
        /\ alloc' = "none" /\ FramingError
     \/ /\ l \in {"neg", "minint"}
        /\ IF "negLenPanics" \in Dev
             THEN /\ alloc' = l /\ srv' = "Panic" /\ UNCHANGED <<react, replyWF, inflight, outcome>>
             ELSE /\ alloc' = "none" /\ FramingError
     \/ /\ l = "max"
        /\ IF "lenCheckOffByOne" \in Dev
             THEN /\ alloc' = "max" /\ srv' = "AwaitPayload" /\ UNCHANGED <<react, replyWF, inflight, outcome>>
             ELSE /\ alloc' = "none" /\ FramingError
     \/ /\ l \in {"over", "huge"}
        /\ alloc' = "none" /\ FramingError
     \/ /\ l \in LenAccepted
        /\ alloc' = l
        /\ srv' = IF l = "zero" THEN "Dispatch" ELSE "AwaitPayload"
        /\ UNCHANGED <<react, replyWF, inflight, outcome>>
  /\ UNCHANGED <<hdr, peer, cur, nframes, listener, nilStored, probe, probeReact>>

\* io.ReadFull(r, buf)
SrvReadPayload ==
  /\ srv = "AwaitPayload"
  /\ \/ /\ cur.lenc = "small" /\ cur.pay # "short"
        /\ srv' = "Dispatch" /\ UNCHANGED <<react, replyWF, inflight, outcome>>
     \/ /\ (cur.pay = "short" \/ cur.lenc \in {"maxm1", "max"}) /\ peer \in {"half", "gone"}
        /\ FramingError
  /\ UNCHANGED <<hdr, peer, cur, alloc, nframes, listener, nilStored, probe, probeReact>>

\* UnmarshalBinary + the store / meta client / task manager call
SrvDispatch ==
  /\ srv = "Dispatch"
  /\ LET t == cur.typ
         p == cur.pay
         bad == p \in {"badenv", "badcontent"}
         fwdNil == t = "writeShard" /\ p = "badcontent" /\ "nilPointForwarded" \in Dev
     IN
     /\ \/ /\ (p \in {"valid", "validU"} \/ fwdNil) /\ outcome' = "ok"
        \/ /\ bad /\ ~fwdNil /\ outcome' = "err"
        \/ /\ (p = "edge" \/ cur.lenc = "zero") /\ outcome' \in {"ok", "err"}
     /\ nilStored' = (nilStored \/ fwdNil)
     /\ listener' = IF bad /\ "errClosesListener" \in Dev THEN "closed" ELSE listener
     /\ IF t = "createIterator" /\ p = "validU" /\ "unsignedPanics" \in Dev
          THEN srv' = "Panic"
          ELSE srv' = "Reply"
  /\ UNCHANGED <<hdr, peer, inflight, cur, alloc, react, replyWF, nframes, probe, probeReact>>

\* the reply (a write to a peer that is gone fails and is logged, nothing else), then loop or return
SrvReply ==
  /\ srv = "Reply"
  /\ LET t == cur.typ
         r == IF t \in Silent THEN (IF outcome = "ok" THEN "ok" ELSE "close") ELSE outcome
         wf == ~(t \in Sketches /\ outcome = "err" /\ "errReplyTruncated" \in Dev)
         nxt == IF t \in RawLV \cup Loop THEN "AwaitType" ELSE "Closed"
     IN Finish(r, wf, nxt)
  /\ UNCHANGED <<hdr, peer, cur, alloc, outcome, nframes, listener, nilStored, probe, probeReact>>

(* ------------------------------- probe --------------------------------- *)
\* a well-formed request on a NEW connection after the connection under test is over
ConnOver == srv \in {"Closed", "Panic"} \/ (hdr = "nothing")
Probe ==
  /\ probe = "idle" /\ ConnOver
  /\ probe' = "done"
  /\ probeReact' = IF listener = "accepting" /\ srv # "Panic" THEN "ok" ELSE "refused"
  /\ UNCHANGED <<hdr, srv, peer, inflight, cur, alloc, outcome, react, replyWF, nframes, listener, nilStored>>

Next ==
  \/ \E h \in {"coord", "other"} : Connect(h)
  \/ CanSend /\ \E f \in Frames : Send(f)
  \/ HalfClose \/ Disconnect
  \/ MuxDispatch \/ SrvReadType \/ SrvReadLen \/ SrvReadPayload \/ SrvDispatch \/ SrvReply
  \/ Probe

Spec == Init /\ [][Next]_vars

(* ------------------------------ properties ----------------------------- *)
FrameDone == cur # NoFrame /\ react # "-"

C15_NeverPanic        == srv # "Panic"
\* nothing is allocated for a rejected length; an accepted frame allocates its announced length (< Max)
C15_AllocBound        == alloc \in {"none"} \cup LenAccepted
C15_MalformedAnswered == (FrameDone /\ Malformed(cur)) => react \in {"err", "close"}
C15_ValidAnswered     == (FrameDone /\ WellFormedValid(cur)) => react = "ok"
C15_NeverSkipped      == react # "skipped"
C15_ReplyWellFormed   == replyWF
C15_ListenerAccepts   == listener = "accepting"
C15_FreshConnAnswered == probe = "done" => probeReact = "ok"
C15_NoNilToStore      == ~nilStored

\* reachability probes (must be violated: non-vacuity)
Probe_ErrReply   == ~(FrameDone /\ Malformed(cur) /\ react = "err")
Probe_CloseReact == ~(FrameDone /\ Malformed(cur) /\ react = "close")
Probe_ThirdFrame == ~(nframes = MaxFrames /\ FrameDone /\ react = "ok")
Probe_MaxAlloc   == alloc # "maxm1"
=============================================================================
