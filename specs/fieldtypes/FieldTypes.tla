----------------------------- MODULE FieldTypes -----------------------------
(* Field types of one measurement of a shard (property C02, second half).                  *)
(*                                                                                        *)
(* ftype  : the measurement's field -> type map (tsdb.MeasurementFields, persisted in      *)
(*          fields.idx); "none" = the field does not exist.                                *)
(* stored : what reads return, (series, field, time) -> [ty, v].                           *)
(* A batch (Shard.WritePoints) is a sequence of points; a point carries one or two fields. *)
(* Points are judged in batch order: a point conflicts when one of its fields already has  *)
(* a different type - the type it had before the batch or the type an earlier accepted     *)
(* point of the same batch gave it.  A conflicting point is dropped as a whole (all its    *)
(* fields), every other point is stored, the call reports a partial write with the number  *)
(* of dropped points.                                                                      *)
(* known  : the series of the measurement in the shard's index.  Shard.validateSeriesAndFields *)
(*          creates the series of EVERY point of a batch before the field types are checked, *)
(*          so a dropped point still leaves its series behind (calibrated against the code;  *)
(*          whether the index should hold such a series is C14's subject, not C02's).        *)
(* Deleting the last known series of the measurement removes the measurement with its field *)
(* map (Engine.deleteSeriesRange -> DropMeasurementIfSeriesNotExist -> cleanupMeasurement); *)
(* as long as a series is known every field keeps its type, even without any value left.   *)
EXTENDS Integers, Sequences, FiniteSets, TLC

CONSTANTS Fields, Types, Series, MaxBatch, MaxWrites, MaxT, MaxV, MaxDrops, MaxReopens,
          IndexPersistent   \* TRUE: tsi1 (the index survives a reopen as it is); FALSE: inmem (rebuilt from the data)

NoType == "none"
None == [ty |-> NoType, v |-> -1]
Time == 0..MaxT
Vals == 0..MaxV
TV == [ty : Types, v : Vals]
FieldSets == (SUBSET Fields) \ {{}}
Point == UNION {[s : {s0}, t : {t0}, fs : [F -> TV]] : s0 \in Series, t0 \in Time, F \in FieldSets}
\* (an operator with a parameter: TLC pre-computes zero-arity constant definitions, and the generator
\* module, which never uses this set, runs with a large MaxBatch)
Batches(m) == UNION {[1..n -> Point] : n \in 1..m}

VARIABLES ftype, stored, known, last, cnt
vars == <<ftype, stored, known, last, cnt>>

Cell == Series \X Fields \X Time
NoFields == [f \in Fields |-> NoType]
Empty == [c \in Cell |-> None]
NoLast == [n |-> 0, out |-> <<>>, dropped |-> 0, err |-> "none", pre |-> Empty, pts |-> <<>>]

Conflicts(ft, p) == \E f \in DOMAIN p.fs : ft[f] # NoType /\ ft[f] # p.fs[f].ty

\* types after accepting p
Learn(ft, p) == [f \in Fields |-> IF f \in DOMAIN p.fs /\ ft[f] = NoType THEN p.fs[f].ty ELSE ft[f]]
Put(st, p) == [c \in Cell |-> IF c[1] = p.s /\ c[3] = p.t /\ c[2] \in DOMAIN p.fs THEN p.fs[c[2]] ELSE st[c]]

\* state after the first i points of batch b, judged in order
RECURSIVE Run(_, _, _, _)
Run(ft, st, b, i) ==
  IF i = 0 THEN [ft |-> ft, st |-> st, out |-> <<>>]
  ELSE LET r == Run(ft, st, b, i - 1)
           p == b[i]
       IN IF Conflicts(r.ft, p)
          THEN [ft |-> r.ft, st |-> r.st, out |-> Append(r.out, "conflict")]
          ELSE [ft |-> Learn(r.ft, p), st |-> Put(r.st, p), out |-> Append(r.out, "stored")]

Dropped(out) == Cardinality({i \in 1..Len(out) : out[i] = "conflict"})

Init == ftype = NoFields /\ stored = Empty /\ known = {} /\ last = NoLast
        /\ cnt = [w |-> 0, d |-> 0, r |-> 0]

WriteBatch(b) ==
  LET r == Run(ftype, stored, b, Len(b)) IN
  /\ ftype' = r.ft
  /\ stored' = r.st
  /\ known' = known \cup {b[i].s : i \in 1..Len(b)}
  /\ last' = [n |-> Len(b), out |-> r.out, dropped |-> Dropped(r.out),
              err |-> IF Dropped(r.out) > 0 THEN "partial" ELSE "none", pre |-> stored, pts |-> b]
  /\ cnt' = [cnt EXCEPT !.w = @ + 1]

HasData(st) == \E c \in Cell : st[c] # None

\* Shard.DeleteSeriesRange(series s, whole time range).  (With no data at all in the shard the
\* engine returns before it looks at the index; that corner is kept out: guard HasData.)
DeleteSeries(s) ==
  /\ HasData(stored)
  /\ stored' = [c \in Cell |-> IF c[1] = s THEN None ELSE stored[c]]
  /\ known' = known \ {s}
  /\ ftype' = IF known' = {} THEN NoFields ELSE ftype
  /\ last' = NoLast
  /\ cnt' = [cnt EXCEPT !.d = @ + 1]

\* Shard.DeleteMeasurement
DropAll ==
  /\ HasData(stored)
  /\ stored' = Empty /\ ftype' = NoFields /\ known' = {} /\ last' = NoLast
  /\ cnt' = [cnt EXCEPT !.d = @ + 1]

\* cache -> file, close + open: no logical change, the field map survives (fields.idx)
Flush == /\ UNCHANGED <<ftype, stored, known>> /\ last' = NoLast /\ cnt' = [cnt EXCEPT !.r = @ + 1]
\* Reopen: the inmem index is rebuilt from the stored keys, so a series that a dropped point left
\* behind without data is gone afterwards; the tsi1 index keeps it (calibrated against the code).
Reopen == /\ UNCHANGED <<ftype, stored>>
          /\ known' = IF IndexPersistent THEN known ELSE {s \in known : \E c \in Cell : c[1] = s /\ stored[c] # None}
          /\ last' = NoLast /\ cnt' = [cnt EXCEPT !.r = @ + 1]

Next == \/ \E b \in Batches(MaxBatch) : WriteBatch(b)
        \/ \E s \in Series : DeleteSeries(s)
        \/ DropAll \/ Flush \/ Reopen
Spec == Init /\ [][Next]_vars
Bounded == cnt.w <= MaxWrites /\ cnt.d <= MaxDrops /\ cnt.r <= MaxReopens

-----------------------------------------------------------------------------
TypeOK == /\ ftype \in [Fields -> Types \cup {NoType}]
          /\ known \subseteq Series /\ (\A c \in Cell : stored[c] # None => c[1] \in known)
          /\ \A c \in Cell : stored[c] = None \/ stored[c] \in TV

\* a field never holds values of two types, and its values have the type of the field map
C02_OneTypePerField ==
  \A c \in Cell : stored[c] # None => stored[c].ty = ftype[c[2]]

\* a conflicting point changes nothing and does not keep the other points from being stored:
\* the stored state is the pre-state plus exactly the non-conflicting points, in order
RECURSIVE PutAll(_, _, _, _)
PutAll(st, b, out, i) == IF i = 0 THEN st
                         ELSE LET s1 == PutAll(st, b, out, i - 1)
                              IN IF out[i] = "stored" THEN Put(s1, b[i]) ELSE s1
C02_ConflictRejectedOnlyThatPoint ==
  last.n > 0 =>
    /\ stored = PutAll(last.pre, last.pts, last.out, last.n)
    \* a dropped point really carries a field of another type than the field's (single) type,
    \* a stored point does not
    /\ \A i \in 1..last.n :
         last.out[i] = "conflict" <=> \E f \in DOMAIN last.pts[i].fs : ftype[f] # last.pts[i].fs[f].ty

C02_PartialWriteReported ==
  last.n > 0 => /\ last.dropped = Dropped(last.out)
                /\ (last.err = "partial") = (last.dropped > 0)
=============================================================================
