--------------------------- MODULE FieldTypesGen ---------------------------
(* Behaviour generator for the replay through Shard.WritePoints on a real tsdb.Shard.       *)
(* Every step carries the per-point outcome, the dropped count, the error class and the     *)
(* model's field map and stored table after the step.                                       *)
EXTENDS FieldTypes, Json

CONSTANTS GenLen,
          IntraBatch   \* TRUE: points of one batch may disagree about the type of a field that does not exist yet
VARIABLE hist
gvars == <<vars, hist>>

\* (TLC caches constant-level subexpressions: every drawn-from set is made state-dependent)
Dyn(S) == {x \in S : Len(hist) >= 0}

FieldsOf(p) == [f \in DOMAIN p.fs |-> p.fs[f]]
PointJ(p) == [s |-> p.s, t |-> p.t, fs |-> [f \in DOMAIN p.fs |-> [ty |-> p.fs[f].ty, v |-> p.fs[f].v]]]
StoredSeq(st) == LET cs == {c \in Cell : st[c] # None}
                 IN {[s |-> c[1], f |-> c[2], t |-> c[3], ty |-> st[c].ty, v |-> st[c].v] : c \in cs}
Proj == [ftype |-> ftype', stored |-> StoredSeq(stored'), known |-> known']
Log(rec) == hist' = Append(hist, rec @@ [st |-> Proj])

\* a random point: one or two fields; types drawn with a bias towards the field's current type so that
\* batches mix good points with conflicting ones
\* register 4 holds, per batch, the type that new fields get when IntraBatch is off
RandTV(f, d) == LET pick == RandomElement(Dyn(1..3))
                IN [ty |-> IF ftype[f] = NoType /\ ~IntraBatch THEN TLCGet(4)[f]
                           ELSE IF pick <= 2 /\ ftype[f] # NoType THEN ftype[f] ELSE RandomElement(Dyn(Types)),
                    v |-> RandomElement(Dyn(Vals))]
RandPoint(d) == LET F == RandomElement(Dyn(FieldSets))
                IN [s |-> RandomElement(Dyn(Series)), t |-> RandomElement(Dyn(Time)), fs |-> [f \in F |-> RandTV(f, d)]]
RandBatch(d) == LET n == RandomElement(Dyn(1..MaxBatch)) IN [i \in 1..n |-> RandPoint(i)]

Kinds == <<"w", "w", "w", "w", "w", "w", "flush", "reopen", "delseries", "dropall">>
KindEnabled(kd) == IF kd \in {"delseries", "dropall"} THEN HasData(stored) ELSE TRUE

GWrite(b) == /\ WriteBatch(b)
             /\ Log([a |-> "write", pts |-> [i \in 1..Len(b) |-> PointJ(b[i])], out |-> last'.out,
                     dropped |-> last'.dropped, err |-> last'.err])
GNext ==
  /\ Len(hist) < GenLen
  /\ TLCSet(1, RandomElement({i \in 1..Len(Kinds) : KindEnabled(Kinds[i])}))
  /\ TLCSet(4, TLCEval([f \in Fields |-> RandomElement(Dyn(Types))]))
  /\ TLCSet(2, TLCEval(RandBatch(0)))
  /\ TLCSet(3, RandomElement(Dyn(Series)))
  /\ LET kind == Kinds[TLCGet(1)] IN
     CASE kind = "w" -> GWrite(TLCGet(2))
       [] kind = "flush" -> Flush /\ Log([a |-> "flush"])
       [] kind = "reopen" -> Reopen /\ Log([a |-> "reopen"])
       [] kind = "delseries" -> DeleteSeries(TLCGet(3)) /\ Log([a |-> "delseries", s |-> TLCGet(3)])
       [] kind = "dropall" -> DropAll /\ Log([a |-> "dropall"])

GInit == Init /\ hist = <<>>
GSpec == GInit /\ [][GNext]_gvars
Emit == (Len(hist) = GenLen) => PrintT(<<"BEHAVIOUR", ToJson(hist)>>)
=============================================================================
